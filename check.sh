#!/bin/bash
# usage: ./check.sh <ID> quick|thorough            run the check of one property
#        ./check.sh <ID> replay <file>             re-execute one saved case
#        ./check.sh setup                          build everything once (MANIFEST.setup_cmd)
# Exit codes: 0 property held on everything explored, 1 violation (a VIOLATION line is printed),
# 2 infrastructure problem / inconclusive (never a verdict about the property).
set -u
cd "$(dirname "$0")"
export CARGO_NET_OFFLINE=true
export VERIF_SEED="${VERIF_SEED:-1}"
ROOT="$(pwd)"
export VERIF_ROOT="$ROOT"
HARNESS=$ROOT/harness
TGT="${VERIF_TARGET:-$ROOT/target}"
SRC="${TCHERAN_SRC:-/repo/src}"
REPO="$(dirname "$SRC")"
export TCHERAN_SRC="$SRC"

build_harness() {  # $1 = release|fast
  local log; log=$(mktemp)
  if ! (cd $HARNESS && CARGO_TARGET_DIR=$TGT/harness cargo build --profile "$1" --offline >"$log" 2>&1); then
    grep -E "^(error|warning: unused)" -A 8 "$log" | head -60
    echo "INFRASTRUCTURE: harness build ($1) failed"; rm -f "$log"; exit 2
  fi
  rm -f "$log"
}

build_engine() {  # the shipped artifact, hooks compiled in (inert unless their env vars are set)
  local log; log=$(mktemp)
  if ! (cd "$REPO" && RUSTFLAGS="--cfg jgilchrist_tcheran_verif" CARGO_TARGET_DIR=$TGT/engine \
        cargo build --release --no-default-features --features release --offline >"$log" 2>&1); then
    grep -E "^error" -A 8 "$log" | head -60
    echo "INFRASTRUCTURE: engine build failed"; rm -f "$log"; exit 2
  fi
  rm -f "$log"
  export TCHERAN_BIN=$TGT/engine/release/engine
}

needs_fast() { case "$1" in C04|C08|C09|C12) return 0;; *) return 1;; esac; }
needs_engine() { case "$1" in C04|C05|C08|C11|C12|C13|C14|C17) return 0;; *) return 1;; esac; }

if [ "${1:-}" = "setup" ]; then
  build_harness release
  build_harness fast
  build_engine
  $TGT/harness/release/check selftest || exit 2
  exit 0
fi

ID="${1:?property id}"; MODE="${2:-quick}"
build_harness release
if needs_fast "$ID"; then build_harness fast; export VERIF_FAST_BIN=$TGT/harness/fast/check; fi
if needs_engine "$ID"; then build_engine; fi
mkdir -p $ROOT/evidence $ROOT/replays
case "$MODE" in
  quick|thorough) exec $TGT/harness/release/check "$ID" --tier "$MODE" ;;
  replay) exec $TGT/harness/release/check "$ID" --tier quick --replay "${3:?replay file}" ;;
  *) echo "unknown mode $MODE"; exit 2 ;;
esac
