#![no_main]
//! Coverage-guided fuzzing of the FEN reader with the C06 hostile-text oracle inside the target:
//! never a panic, wrong rank widths rejected, accepted placements equal the tokeniser's decoding.
use libfuzzer_sys::fuzz_target;
use tv::framework::Stats;

fuzz_target!(|data: &[u8]| {
    tv::framework::install_panic_hook(); // replaces libfuzzer-sys's aborting hook (engine panics are caught and judged)
    tv::init();
    let Ok(text) = std::str::from_utf8(data) else { return };
    let mut st = Stats::default();
    if let Err(f) = tv::props::c06::check_hostile(text, &mut st) {
        eprintln!("C06 ORACLE FAILURE [{}]: {}", f.signature, f.msg);
        std::process::abort();
    }
});
