#![no_main]
//! Coverage-guided fuzzing of histories (make / null move / take back) with the C02, C03 and C15 invariants after every step.
//! The bytes are a choice tape for the same deterministic builders the proptest parts use.
use libfuzzer_sys::fuzz_target;
use tv::framework::catch;

fuzz_target!(|data: &[u8]| {
    tv::framework::install_panic_hook();
    tv::init();
    let tape = tv::props::fuzzglue::tape_of_bytes(data);
    match catch(|| tv::props::fuzzglue::histories(&tape)) {
        Ok(Ok(())) => {}
        Ok(Err(f)) => {
            eprintln!("ORACLE FAILURE [{}]: {}", f.signature, f.msg);
            std::process::abort();
        }
        Err(p) => {
            eprintln!("ORACLE FAILURE [panic]: {p}");
            std::process::abort();
        }
    }
});
