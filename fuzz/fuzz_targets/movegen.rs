#![no_main]
//! Coverage-guided fuzzing of move generation: the bytes are a choice tape for the position
//! generators (roots, themes, random placements, walks); every position on the walk goes through
//! the C01 differential oracle against the reference model.
use libfuzzer_sys::fuzz_target;
use tv::framework::{catch, Stats, Tape};
use tv::gen::{gen_walk, Mix};

fuzz_target!(|data: &[u8]| {
    tv::framework::install_panic_hook();
    tv::init();
    let tape: Vec<u16> = data.chunks(2).map(|c| u16::from_le_bytes([c[0], *c.get(1).unwrap_or(&0)])).collect();
    let mut t = Tape::new(&tape);
    let positions = gen_walk(&mut t, Mix::General, 24);
    let mut st = Stats::default();
    for gp in positions {
        match catch(|| tv::props::c01::compare_position(&gp.pos, &mut st, gp.src, false)) {
            Ok(Ok(())) => {}
            Ok(Err(f)) => {
                eprintln!("C01 ORACLE FAILURE [{}]: {}", f.signature, f.msg);
                std::process::abort();
            }
            Err(p) => {
                eprintln!("C01 ORACLE FAILURE [panic]: {} at {}", p, gp.pos.to_fen());
                std::process::abort();
            }
        }
    }
});
