#!/bin/bash
# run every check (quick by default), report exit code and wall time; validate evidence files
TIER="${1:-quick}"
cd "$(dirname "$0")/.."
ROOT="$(pwd)"
for id in C01 C02 C03 C04 C05 C06 C07 C08 C09 C10 C11 C12 C13 C14 C15 C16 C17 C18 C19 C20; do
  s=$(date +%s.%N)
  out=$(./check.sh $id $TIER 2>&1); code=$?
  e=$(date +%s.%N)
  printf "%s exit=%s wall=%.1fs :: %s\n" $id $code $(echo "$e - $s" | bc) "$(echo "$out" | grep -E "^$id $TIER" | tail -1)"
  echo "$out" | grep -E "VIOLATION|KNOWN-FINDING|INFRA|INCONCLUSIVE" | cut -c1-200
done
ROOT=$ROOT python3-vt - <<'PY'
import json,jsonschema,glob,os
sch=json.load(open('/root/.vp/EVIDENCE.schema.json'))
for f in sorted(glob.glob(os.environ['ROOT']+'/evidence/C*.json')):
    try:
        jsonschema.validate(json.load(open(f)),sch)
    except Exception as e:
        print("EVIDENCE INVALID",f,str(e)[:200])
print("evidence validated")
PY
