#!/usr/bin/env python3
"""Property-preserving changes (retuned parameters) applied to a scratch worktree of /repo; every quick
check must stay silent on each of them.  usage: tools/benign.py <verif-snapshot-dir> [name ...]"""
import json, os, subprocess, sys, time
snap = sys.argv[1]
only = sys.argv[2:]
WT = '/tmp/benign-wt'
TGT = '/tmp/benign-target'
S = 'src/engine/search/mod.rs'
EDITS = {
 'search_params_retuned': [(S, 'ASPIRATION_WINDOW_SIZE: Eval = Eval::new(25)', 'ASPIRATION_WINDOW_SIZE: Eval = Eval::new(40)'),
                           # (null-move reduction 3 with depth limit 3 underflows `depth - 1 - R`: not a benign change;
                           #  every search check reported the resulting crash / endless search, as it should)
                           (S, 'LMR_MOVE_THRESHOLD: usize = 3', 'LMR_MOVE_THRESHOLD: usize = 4'),
                           (S, 'FUTILITY_PRUNE_MAX_MOVE_VALUE: Eval = Eval::new(135)', 'FUTILITY_PRUNE_MAX_MOVE_VALUE: Eval = Eval::new(200)'),
                           (S, 'REVERSE_FUTILITY_PRUNE_MARGIN_PER_PLY: Eval = Eval::new(150)', 'REVERSE_FUTILITY_PRUNE_MARGIN_PER_PLY: Eval = Eval::new(120)'),
                           (S, 'HISTORY_DECAY_FACTOR: i32 = 8', 'HISTORY_DECAY_FACTOR: i32 = 4')],
 'poll_every_2048_nodes': [(S, 'CHECK_TERMINATION_NODE_FREQUENCY: u64 = 10000', 'CHECK_TERMINATION_NODE_FREQUENCY: u64 = 2048')],
 'poll_every_40000_nodes': [(S, 'CHECK_TERMINATION_NODE_FREQUENCY: u64 = 10000', 'CHECK_TERMINATION_NODE_FREQUENCY: u64 = 40000')],
 'time_management_retuned': [(S, 'BASE_TIME_PER_MOVE: f32 = 0.033', 'BASE_TIME_PER_MOVE: f32 = 0.05'),
                             (S, 'SOFT_TIME_MULTIPLIER: f32 = 0.75', 'SOFT_TIME_MULTIPLIER: f32 = 0.6'),
                             (S, 'HARD_TIME_MULTIPLIER: f32 = 3.00', 'HARD_TIME_MULTIPLIER: f32 = 2.00'),
                             (S, 'INCREMENT_TO_USE: f32 = 0.5', 'INCREMENT_TO_USE: f32 = 0.75'),
                             (S, 'MAX_TIME_PER_MOVE: f32 = 0.5', 'MAX_TIME_PER_MOVE: f32 = 0.4')],
 'eval_retuned': [('src/engine/eval/params.rs', 's(  274,   329)', 's(  290,   320)'),
                  ('src/engine/eval/params.rs', 's(  771,  1148)', 's(  800,  1100)'),
                  ('src/engine/eval/params.rs', 'BISHOP_PAIR_BONUS: PhasedEval = s(   31,    89)', 'BISHOP_PAIR_BONUS: PhasedEval = s(   45,    60)')],
 'see_values_retuned': [('src/engine/see.rs', 'Knight | Bishop => 300,', 'Knight => 310,\n        Bishop => 330,'),
                        ('src/engine/see.rs', 'Queen => 900,', 'Queen => 950,')],
}
def sh(cmd):
    return subprocess.run(cmd, shell=True, capture_output=True, text=True)
sh(f'git -C /repo worktree remove --force {WT}')
assert sh(f'git -C /repo worktree add --detach {WT} HEAD').returncode == 0
out = {}
for name, edits in EDITS.items():
    if only and name not in only:
        continue
    sh(f'git -C {WT} reset -q --hard HEAD; git -C {WT} clean -fdq -e target')
    for f, old, new in edits:
        t = open(f'{WT}/{f}').read()
        assert t.count(old) == 1, (name, f, old)
        open(f'{WT}/{f}', 'w').write(t.replace(old, new))
    t = sh(f'cd {WT} && cargo test --workspace --no-fail-fast --offline 2>&1 | grep "test result" | head -1').stdout.strip()
    print(name, 'suite:', t, flush=True)
    out[name] = {'suite': t, 'checks': {}}
    for i in range(1, 21):
        pid = f'C{i:02d}'
        if os.environ.get('BENIGN_CHECKS') and pid not in os.environ['BENIGN_CHECKS'].split(','):
            continue
        env = dict(os.environ, TCHERAN_SRC=f'{WT}/src', VERIF_TARGET=TGT, VERIF_EVIDENCE_OUT='/tmp/benign-ev.json')
        t0 = time.time()
        c = subprocess.run(['./check.sh', pid, 'quick'], cwd=snap, env=env, capture_output=True, text=True)
        first = next((l for l in c.stdout.splitlines() if l.startswith('  [')), '')
        out[name]['checks'][pid] = {'exit': c.returncode, 'seconds': round(time.time() - t0, 1), 'first': first.strip()[:300]}
        if c.returncode != 0:
            print('  ', pid, 'EXIT', c.returncode, first.strip()[:200], flush=True)
        json.dump(out, open(f'{snap}/' + ('benign_results_partial.json' if os.environ.get('BENIGN_CHECKS') else 'benign_results.json'), 'w'), indent=1)
    print(name, 'alarms:', [p for p, r in out[name]['checks'].items() if r['exit'] != 0], flush=True)
sh(f'git -C /repo worktree remove --force {WT}')
