#!/usr/bin/env python3
"""Sensitivity harness: applies one deliberate breakage of a property to a scratch copy of /repo,
runs the listed checks against it (TCHERAN_SRC, separate target dir), records whether each check
fails within its quick budget, and removes the scratch copy. /repo itself is never touched.

usage: tools/mutants.py [--only NAME[,NAME..]] [--tier quick] [--list]
"""
import json, os, shutil, subprocess, sys, time

SCRATCH = "/tmp/tcheran-mut"
TARGET = "/tmp/tcheran-mut-target"

# name: (file under /repo, old text, new text, [checks expected to fail], [control checks that must stay green])
M = {}

def mut(name, file, old, new, expect, control=()):
    M[name] = (file, old, new, list(expect), list(control))

G = "src/chess/movegen/gen.rs"
mut("c01_capture_ignores_orthogonal_pin", G, "let can_capture_pawns = pawns & !orthogonal_pins;", "let can_capture_pawns = pawns;", ["C01"])
mut("c01_castle_while_in_check", G, "    if !checkers.any() {\n        generate_castles(moves, game, all_pieces);\n    }", "    generate_castles(moves, game, all_pieces);", ["C01"])
mut("c01_castle_middle_square_unchecked", G, "        && attackers::generate_attackers_of(&game.board, game.player, middle_square).is_empty()\n", "", ["C01"])
mut("c01_ep_without_scratch_test", G, "                    if !king_in_check {\n                        moves.push(Move::en_passant(", "                    if !king_in_check || true {\n                        moves.push(Move::en_passant(", ["C01"])
mut("c01_revert_d1", G, "                    board_without_en_passant_participants\n                        .set_at(en_passant_target, Piece::new(game.player, PieceKind::Pawn));\n", "", ["C01"])
mut("c01_pinned_knight_moves", G, "    // Pinned knights can't move\n    for knight in knights & !(orthogonal_pins | diagonal_pins) {\n        let destinations = tables::knight_attacks(knight) & check_mask;\n\n        let capture_destinations", "    // Pinned knights can't move\n    for knight in knights & !(orthogonal_pins) {\n        let destinations = tables::knight_attacks(knight) & check_mask;\n\n        let capture_destinations", ["C01"])
mut("c01_double_push_through_piece", G, "        & !double_push_blockers\n", "", ["C01"])
mut("c01_promo_capture_flag", G, "            moves.push(Move::capture_promotion(\n                pawn,\n                target,\n                PromotionPieceKind::Bishop,\n            ));", "            moves.push(Move::quiet_promotion(\n                pawn,\n                target,\n                PromotionPieceKind::Bishop,\n            ));", ["C01"])
mut("c01_king_xray_square", G, "    let mut board_without_king = game.board.clone();\n    board_without_king.remove_at(king);\n\n    for dst in destinations & !all_pieces {", "    let board_without_king = game.board.clone();\n\n    for dst in destinations & !all_pieces {", ["C01"])

GM = "src/chess/game.rs"
mut("c02_undo_castle_rook_stays", GM, "                self.board.remove_at(rook_to);\n                self.board\n                    .set_at(rook_from, Piece::new(player, PieceKind::Rook));", "                self.board\n                    .set_at(rook_from, Piece::new(player, PieceKind::Rook));", ["C02"])
mut("c02_undo_promotion_keeps_piece", GM, "        if mv.promotion().is_some() {\n            self.board.set_at(from, Piece::new(player, PieceKind::Pawn));\n        } else {", "        if false {\n            self.board.set_at(from, Piece::new(player, PieceKind::Pawn));\n        } else {", ["C02"])
mut("c02_clock_not_reset_on_pawn_move", GM, "maybe_captured_piece.is_some() || moved_piece.kind == PieceKind::Pawn;", "maybe_captured_piece.is_some();", ["C02", "C11"])
mut("c02_ep_target_always_recorded", GM, "            if en_passant_can_happen {\n                Some(from.forward(player))", "            if en_passant_can_happen || true {\n                Some(from.forward(player))", ["C02", "C17"])
mut("c02_rights_only_on_king_moves", GM, "            if from == squares::kingside_rook_start(player) {\n                self.try_remove_castle_rights(player, CastleRightsSide::Kingside);", "            if false {\n                self.try_remove_castle_rights(player, CastleRightsSide::Kingside);", ["C02", "C17"])
mut("c02_rook_capture_keeps_right", GM, "            if to == squares::kingside_rook_start(other_player) {\n                self.try_remove_castle_rights(other_player, CastleRightsSide::Kingside);", "            if false {\n                self.try_remove_castle_rights(other_player, CastleRightsSide::Kingside);", ["C02"])
mut("c02_undo_null_keeps_ep", GM, "        self.zobrist = history.zobrist;\n        self.en_passant_target = history.en_passant_target;\n        self.halfmove_clock = history.halfmove_clock;\n        self.incremental_eval = history.incremental_eval;\n    }", "        self.zobrist = history.zobrist;\n        self.halfmove_clock = history.halfmove_clock;\n        self.incremental_eval = history.incremental_eval;\n    }", ["C02"])
mut("c02_ep_victim_bitboards_only", GM, "            let capture_square = to.backward(player);\n            self.remove_at(capture_square);", "            let capture_square = to.backward(player);\n            self.board.remove_at(capture_square);", ["C03", "C15"], [])

Z = "src/chess/zobrist.rs"
mut("c03_rook_capture_skips_castle_toggle", GM, "        castle_rights.remove_rights(castle_rights_side);\n\n        self.zobrist\n            .toggle_castle_rights(player, castle_rights_side);", "        castle_rights.remove_rights(castle_rights_side);\n\n        if castle_rights_side.array_idx() == 0 || player == Player::White {\n            self.zobrist\n                .toggle_castle_rights(player, castle_rights_side);\n        }", ["C03"])
mut("c03_set_en_passant_forgets_old", Z, "        self.0 ^= en_passant(previous_square);\n        self.0 ^= en_passant(square);", "        let _ = previous_square;\n        self.0 ^= en_passant(None);\n        self.0 ^= en_passant(square);", ["C03"])
mut("c03_null_move_no_side_toggle", GM, "        self.plies += 1;\n\n        self.player = self.player.other();\n        self.zobrist.toggle_side_to_play();\n    }\n\n    pub fn undo_move", "        self.plies += 1;\n\n        self.player = self.player.other();\n    }\n\n    pub fn undo_move", ["C03"])
mut("c03_hash_ignores_ep", Z, "    hash ^= en_passant(game.en_passant_target);\n", "    hash ^= en_passant(None);\n", ["C03"])
mut("c03_two_components_equal", Z, "    unsafe {\n        components::SIDE_TO_PLAY = random.next_u64();\n    }", "    unsafe {\n        components::SIDE_TO_PLAY = random.next_u64();\n        components::CASTLING[1][1] = components::CASTLING[0][0];\n    }", ["C03"])

ASP = "src/engine/search/aspiration.rs"
mut("c04_revert_d2", ASP, "clamp_alpha(saturating_sub(self.alpha, self.width))", "clamp_alpha(self.alpha - self.width)", ["C04", "C08"])
mut("c04_revert_d2_up", ASP, "clamp_beta(saturating_add(self.beta, self.width))", "clamp_beta(self.beta + self.width)", ["C04"])
mut("c04_revert_d3", "src/engine/transposition_table.rs", "self.generation = self.generation.wrapping_add(1);", "self.generation += 1;", ["C04", "C19"])
mut("c04_killer_index_plus_one", "src/engine/search/negamax.rs", "ctx.killer_moves.try_push(plies, mv);", "ctx.killer_moves.try_push(plies + 250, mv);", ["C04"])
mut("c04_bestmove_from_tt_of_other_position", "src/engine/transposition_table.rs", "                if entry.key == *key {\n                    return Some(&entry.data);", "                if entry.key.0 as u32 == key.0 as u32 {\n                    return Some(&entry.data);", ["C19"], [])

UCI = "src/engine/uci/mod.rs"
mut("c05_revert_d5", UCI, "                self.control = None;\n\n                #[cfg(jgilchrist_tcheran_verif)]\n                crate::engine::util::sync::verif_delay(\"newgame_after_reset\");", "                #[cfg(jgilchrist_tcheran_verif)]\n                crate::engine::util::sync::verif_delay(\"newgame_after_reset\");", ["C05"])
mut("c05_latch_never_set", UCI, "                    is_stopped.set();\n", "", ["C05"])
mut("c05_go_resets_latch_after_spawn", UCI, "                if self.block_on_threads {\n                    join_handle.join().unwrap();\n                }", "                self.is_stopped.reset();\n                if self.block_on_threads {\n                    join_handle.join().unwrap();\n                }", ["C05"])
mut("c05_latch_set_before_bestmove", UCI, "                    reporter.best_move(&game, best_move);\n\n                    #[cfg(jgilchrist_tcheran_verif)]\n                    crate::engine::util::sync::verif_delay(\"go_after_bestmove\");\n\n                    is_stopped.set();", "                    is_stopped.set();\n                    reporter.best_move(&game, best_move);\n\n                    #[cfg(jgilchrist_tcheran_verif)]\n                    crate::engine::util::sync::verif_delay(\"go_after_bestmove\");\n", [], ["C05"])

FP = "src/chess/fen/fen_parser.rs"
FW = "src/chess/fen/fen_writer.rs"
mut("c06_revert_d6_width", FP, "|squares: &Vec<Option<Piece>>| squares.len() == File::N,", "|squares: &Vec<Option<Piece>>| !squares.is_empty(),", ["C06"])
mut("c06_accepts_total_64", FP, "|squares: &Vec<Option<Piece>>| squares.len() == File::N,", "|squares: &Vec<Option<Piece>>| squares.len() <= 9 && squares.len() >= 7,", ["C06"])
mut("c06_writer_rights_order", FW, "            if white_king { \"K\" } else { \"\" },\n            if white_queen { \"Q\" } else { \"\" },\n            if black_king { \"k\" } else { \"\" },", "            if white_king { \"K\" } else { \"\" },\n            if black_king { \"k\" } else { \"\" },\n            if white_queen { \"Q\" } else { \"\" },", ["C06", "C02"])
mut("c06_writer_drops_ep", FW, "        Some(sq) => sq.notation(),\n        None => \"-\".to_string(),", "        Some(_) => \"-\".to_string(),\n        None => \"-\".to_string(),", ["C06", "C02"])
mut("c06_plies_without_side", FP, "fullmove_number.saturating_sub(1) * 2 + u32::from(player == Player::Black)", "fullmove_number.saturating_sub(1) * 2 + u32::from(player == Player::Black && fullmove_number < 40)", ["C06"])
mut("c06_move_number_zero_panics", FP, "fullmove_number.saturating_sub(1) * 2", "(fullmove_number - 1) * 2", ["C06"])

MG = "src/chess/movegen/tables/magics.rs"
mut("c07_magic_bit_flip", MG, "(0xA7020080601803D8, 60984)", "(0xA7020080601803D9, 60984)", ["C07"])
# equivalent mutant: the table is filled through the same index function, shifting one square's region by one slot collides with nothing
mut("c07_offset_off_by_one_equivalent", MG, "(0x13802040400801F1, 66046)", "(0x13802040400801F1, 66047)", [], ["C07"])
mut("c07_offset_into_neighbour_region", MG, "(0x13802040400801F1, 66046)", "(0x13802040400801F1, 60990)", ["C07"])
mut("c07_rook_shift", MG, "const ROOK_SHIFT: usize = 12;", "const ROOK_SHIFT: usize = 11;", ["C07"])
mut("c07_between_antidiagonal", "src/chess/movegen/tables/between.rs", "        let direction = if start_square.rank() < end_square.rank() {\n            Direction::NorthEast\n        } else {\n            Direction::SouthEast\n        };", "        let direction = if start_square.rank() < end_square.rank() || start_square.file().idx() == 6 {\n            Direction::NorthEast\n        } else {\n            Direction::SouthEast\n        };", ["C07"])
mut("c07_knight_offset", "src/chess/movegen/tables/attacks.rs", "    attacks |= sq.west().south_west();", "    attacks |= sq.west().west();", ["C07", "C01"])

PE = "src/engine/eval/player_eval.rs"
NM = "src/engine/search/negamax.rs"
mut("c08_mate_distance_off_by_one", PE, "return Some((Self::MATE - self.0 + 1) / 2);", "return Some((Self::MATE - self.0) / 2);", ["C08"])
# search-quality bug only: cut-offs at non-PV nodes use wrong mate distances, but every reported line is still
# re-searched exactly at PV nodes, so the statement of C08 (line matches the announcement) keeps holding
mut("c08_tt_store_without_mate_adjust", NM, "eval: best_eval.with_mate_distance_from_position(plies),", "eval: best_eval,", [], ["C08"])
mut("c08_tt_cutoff_in_pv_nodes", NM, "if !is_root && !is_pv && tt_entry.depth >= depth {", "if !is_root && tt_entry.depth >= depth {", ["C08"])
mut("c08_node_pv_not_cleared", NM, "    while let Some(mv) = moves.next(game, ctx, plies) {\n        node_pv.clear();\n", "    while let Some(mv) = moves.next(game, ctx, plies) {\n", ["C08"])
mut("c08_depth_report_skips", "src/engine/search/iterative_deepening.rs", "                depth,\n                seldepth: ctx.max_depth_reached,", "                depth: if depth == 3 { 4 } else { depth },\n                seldepth: ctx.max_depth_reached,", ["C08"])

mut("c09_null_move_swallows_stop", NM, "                &mut PrincipalVariation::new(),\n                ctx,\n            )?;\n\n            game.undo_null_move();", "                &mut PrincipalVariation::new(),\n                ctx,\n            )\n            .unwrap_or(-beta);\n\n            game.undo_null_move();", ["C09"])
mut("c09_root_pv_updated_before_search_completes", NM, "        let move_score = if number_of_legal_moves == 1 {\n", "        if is_root && number_of_legal_moves > 1 && depth > 3 {\n            pv.push(mv, &node_pv);\n        }\n        let move_score = if number_of_legal_moves == 1 {\n", ["C09"], [])
mut("c09_stop_ignored_in_quiescence", "src/engine/search/quiescence.rs", "    if ctx.time_control.should_stop(ctx.nodes_visited) {\n        return Err(());\n    }", "    if ctx.time_control.should_stop(ctx.nodes_visited) && plies > 250 {\n        return Err(());\n    }", ["C09"])

MP = "src/engine/search/move_picker.rs"
mut("c10_killer_is_hash_yielded_twice", MP, "                        if Some(killer1) != self.previous_best_move {\n                            return Some(killer1);\n                        }", "                        return Some(killer1);", ["C10"])
mut("c10_first_bad_capture_off_by_one", MP, "self.first_bad_capture = Some(self.idx - 1);", "self.first_bad_capture = Some(self.idx);", ["C10"])
mut("c10_hash_move_not_skipped", MP, "            if Some(best_move) == self.previous_best_move {\n                continue;\n            }", "", ["C10"])
mut("c10_counter_move_not_removed_from_quiets", MP, "                        if self.moves.get(i).is_some_and(|m| *m == counter_move) {\n                            self.moves.swap(self.first_quiet, i);\n                            self.first_quiet += 1;", "                        if self.moves.get(i).is_some_and(|m| *m == counter_move) {\n                            self.moves.swap(self.first_quiet, i);", ["C10"])

mut("c11_repetition_window_minus_one", GM, ".take(self.halfmove_clock as usize)", ".take((self.halfmove_clock as usize).saturating_sub(1))", ["C11"])
mut("c11_repetition_last_four_only", GM, ".take(self.halfmove_clock as usize)", ".take((self.halfmove_clock as usize).min(4))", ["C11"])
mut("c11_fifty_gt_100", GM, "if self.halfmove_clock >= 100 {", "if self.halfmove_clock > 100 {", ["C11"])
mut("c11_fifty_without_legal_move_test", GM, "            return !movelist.is_empty();", "            return true;", ["C11"])
mut("c11_three_men_always_dead", GM, "            3 => (self.board.all_knights() | self.board.all_bishops()).any(),", "            3 => true,", ["C11"])

ST = "src/engine/search/tables.rs"
SM = "src/engine/search/mod.rs"
mut("c12_history_reset_noop", SM, "        self.tt.reset();\n        self.history_table.reset();", "        self.tt.reset();", ["C12"])
# equivalent: ages are only compared for equality with the current generation, which restarts relative to itself
mut("c12_reset_leaves_generation", "src/engine/transposition_table.rs", "        self.generation = 0;\n        self.occupied = 0;\n    }\n\n    pub fn resize", "        self.occupied = 0;\n    }\n\n    pub fn resize", [], ["C12", "C19"])
mut("c12_reset_leaves_last_slot", "src/engine/transposition_table.rs", "        for i in 0..self.data.len() {\n            self.data[i] = None;\n        }", "        for i in 0..self.data.len() - 1 {\n            self.data[i] = None;\n        }", ["C19"], [])

mut("c13_revert_d4", "src/engine/transposition_table.rs", "calculate_number_of_entries::<T>(size_mb).max(1);", "calculate_number_of_entries::<T>(size_mb);", ["C13", "C19"])
mut("c13_resize_keeps_occupied", "src/engine/transposition_table.rs", "        self.size = size_mb;\n        self.occupied = 0;", "        self.size = size_mb;", ["C19"])
mut("c13_overhead_u8", "src/engine/uci/options.rs", "        let move_overhead = value.parse::<usize>().map_err(|_| \"Invalid value\")?;", "        let move_overhead = value.parse::<u8>().map_err(|_| \"Invalid value\")? as usize;", ["C13"])

TC = "src/engine/search/time_control.rs"
mut("c14_hard_without_cap", TC, "                hard_stop = std::cmp::min(\n                    base_time.mul_f32(params::HARD_TIME_MULTIPLIER),\n                    max_time_per_move,\n                );", "                hard_stop = base_time.mul_f32(params::HARD_TIME_MULTIPLIER);", ["C14"])
mut("c14_uses_opponent_clock", TC, "                    Player::White => (clocks.white_clock, clocks.white_increment),\n                    Player::Black => (clocks.black_clock, clocks.black_increment),", "                    Player::White => (clocks.black_clock, clocks.white_increment),\n                    Player::Black => (clocks.white_clock, clocks.black_increment),", ["C14"])
mut("c14_increment_after_cap", TC, "                hard_stop = std::cmp::min(\n                    base_time.mul_f32(params::HARD_TIME_MULTIPLIER),\n                    max_time_per_move,\n                );", "                hard_stop = std::cmp::min(\n                    base_time.mul_f32(params::HARD_TIME_MULTIPLIER),\n                    max_time_per_move,\n                ) + increment;", ["C14"])
mut("c14_hard_stop_checked_rarely", "src/engine/search/mod.rs", "pub const CHECK_TERMINATION_NODE_FREQUENCY: u64 = 10000;", "pub const CHECK_TERMINATION_NODE_FREQUENCY: u64 = 4000000;", ["C14"])
mut("c14_parser_swaps_inc", "src/engine/uci/parser.rs", "                        acc.winc = Some(parse_duration(winc));", "                        acc.binc = Some(parse_duration(winc));", ["C14"])

EV = "src/engine/eval/mod.rs"
mut("c15_promoted_piece_counted_as_pawn_phase", GM, "            let promoted_piece = Piece::new(player, promoted_to.piece());\n            self.set_at(to, promoted_piece);", "            let promoted_piece = Piece::new(player, promoted_to.piece());\n            self.set_at(to, promoted_piece);\n            self.incremental_eval.phase_value -= 1;", ["C15"])
mut("c15_castle_rook_via_board", GM, "                let rook = self.remove_at(rook_from);\n                self.set_at(rook_to, rook);", "                let rook = self.board.piece_at(rook_from).unwrap();\n                self.board.remove_at(rook_from);\n                self.board.set_at(rook_to, rook);", ["C15", "C03"])
mut("c15_undo_null_no_restore", GM, "        self.halfmove_clock = history.halfmove_clock;\n        self.incremental_eval = history.incremental_eval;\n    }", "        self.halfmove_clock = history.halfmove_clock;\n    }", [], ["C15"])

PH = "src/engine/eval/phased_eval.rs"
mut("c16_revert_d8", PH, "let phase_value = i64::from(phase_value).min(PHASE_COUNT_MAX);", "let phase_value = i64::from(phase_value);", ["C16"])
mut("c16_endgame_carry", PH, "WhiteEval(((self.0 + 0x8000) >> 16) as i16)", "WhiteEval((self.0 >> 16) as i16)", ["C16"])
mut("c16_mobility_asymmetric", "src/engine/eval/mobility_and_king_safety.rs", "let their_pawns = game.board.pawns(player.other()).forward(player.other());", "let their_pawns = game.board.pawns(player.other()).forward(Player::Black);", ["C16"])
mut("c16_passed_pawn_mask_asymmetric", "src/engine/eval/pawn_structure.rs", "    let file_right = file.east();\n\n    let relevant_files", "    let file_right = if player == Player::White { file.east() } else { file };\n\n    let relevant_files", ["C16"])

UP = "src/engine/uci/parser.rs"
mut("c17_promotion_upper_case", "src/chess/moves.rs", "                    PromotionPieceKind::Knight => \"n\",\n                    PromotionPieceKind::Bishop => \"b\",\n                    PromotionPieceKind::Rook => \"r\",\n                    PromotionPieceKind::Queen => \"q\",\n                },\n                None => \"\",\n            }\n        )\n    }\n}\n\n#[cfg(test)]", "                    PromotionPieceKind::Knight => \"N\",\n                    PromotionPieceKind::Bishop => \"b\",\n                    PromotionPieceKind::Rook => \"r\",\n                    PromotionPieceKind::Queen => \"q\",\n                },\n                None => \"\",\n            }\n        )\n    }\n}\n\n#[cfg(test)]", ["C17"])
mut("c17_expect_matching_ignores_promotion", "src/chess/moves.rs", "if mv.src() == src && mv.dst() == dst && mv.promotion() == promotion {", "if mv.src() == src && mv.dst() == dst {", ["C17"])
mut("c17_position_keeps_old_game", UCI, "                let mut game = match position {\n                    commands::Position::StartPos => Game::new(),", "                let mut game = match position {\n                    commands::Position::StartPos if self.game.plies > 60 => self.game.clone(),\n                    commands::Position::StartPos => Game::new(),", ["C17"])
mut("c17_bestmove_promotion_letter", "src/engine/uci/move.rs", "                    PromotionPieceKind::Bishop => \"b\",\n                    PromotionPieceKind::Rook => \"r\",\n                    PromotionPieceKind::Queen => \"q\",\n                },\n                None => \"\",\n            }\n        )\n    }\n}\n\nimpl std::fmt::Debug", "                    PromotionPieceKind::Bishop => \"b\",\n                    PromotionPieceKind::Rook => \"r\",\n                    PromotionPieceKind::Queen => \"Q\",\n                },\n                None => \"\",\n            }\n        )\n    }\n}\n\nimpl std::fmt::Debug", ["C17"])

SW = "src/chess/san/san_writer.rs"
SP = "src/chess/san/san_parser.rs"
mut("c18_revert_d7a", SW, "        (false, _) => AmbiguityResolution::File,", "        (false, false) => AmbiguityResolution::None,\n        (false, true) => AmbiguityResolution::File,", ["C18"])
mut("c18_revert_d7b", SW, "            return format!(\"{}{check}\", san::QUEENSIDE_CASTLE);", "            return san::QUEENSIDE_CASTLE.to_string();", ["C18"])
mut("c18_revert_d7c", SP, "            piece == PieceKind::Pawn && mv.dst() == dst && ambiguity_resolution.satisfied_by(mv)\n        })\n        .map(|(_, mv)| mv.src())\n        .collect();\n\n    assert_eq!(matching_source_squares.len(), 1);\n    Ok(*matching_source_squares.iter().next().unwrap())\n}", "            let _ = piece;\n            mv.dst() == dst && ambiguity_resolution.satisfied_by(mv)\n        })\n        .map(|(_, mv)| mv.src())\n        .collect();\n\n    assert_eq!(matching_source_squares.len(), 1);\n    Ok(*matching_source_squares.iter().next().unwrap())\n}", ["C18"])
mut("c18_file_rank_swapped", SW, "        (true, false) => AmbiguityResolution::Rank,", "        (true, false) => AmbiguityResolution::Exact,", ["C18"])
mut("c18_no_x_for_en_passant", SW, "    let capture_x = if mv.is_capture() {", "    let capture_x = if mv.is_capture() && !mv.is_en_passant() {", ["C18"])
mut("c18_pinned_piece_counts", SW, "    let moves = game.moves().to_vec();\n\n    let potentially_ambiguous_moves", "    let mut other = game.clone();\n    other.en_passant_target = None;\n    let moves = other.moves().to_vec();\n\n    let potentially_ambiguous_moves", [], ["C18"])

TT = "src/engine/transposition_table.rs"
TR = "src/engine/search/transposition.rs"
mut("c19_get_compares_low_bits", TT, "                if entry.key == *key {", "                if entry.key.0 & 0xffff_ffff_ffff == key.0 & 0xffff_ffff_ffff {", ["C19"])
# the statement is silent about a non-exact old entry of the same search: keeping it is admitted by the model
mut("c19_nonexact_old_entry_kept_if_new_shallower", TR, "        // Don't overwrite exact nodes\n        self.bound != NodeBound::Exact", "        // Don't overwrite exact nodes\n        self.bound != NodeBound::Exact && new.depth == self.depth", [], ["C19"])
mut("c19_depth_ge", TR, "        if new.depth > self.depth {", "        if new.depth >= self.depth {", ["C19"])
mut("c19_occupied_counts_every_insert", TT, "                if existing_data.data.should_overwrite_with(&data) {\n                    self.data[idx]", "                self.occupied += 1;\n                if existing_data.data.should_overwrite_with(&data) {\n                    self.data[idx]", ["C19"])
mut("c19_old_search_entry_kept_if_deeper", TR, "        if new.age != self.age {\n            return true;\n        }", "        if new.age != self.age && new.depth + 3 >= self.depth {\n            return true;\n        }", ["C19"])

SEE = "src/engine/see.rs"
# a different value table is not a violation ("an independent swap-list computation using the same piece
# values"): since the reference reads the values off the evaluator this is a control
mut("c20_rook_value", SEE, "        Rook => 500,", "        Rook => 300,", [], ["C20"])
# equivalent at threshold 0 (parity of the piece values: once a pawn has recaptured the verdict is decided)
mut("c20_no_diagonal_xray_after_pawn", SEE, "        if attacker == PieceKind::Pawn\n            || attacker == PieceKind::Bishop", "        if attacker == PieceKind::Bishop", [], ["C20"])
# equivalent for the verdict: a king that captures into defence is recaptured (value 10000), which leaves the
# side that was losing without the capture still losing
mut("c20_king_captures_into_defence", SEE, "        if attacker == PieceKind::King && (attackers & board.occupancy_for(color.other())).any() {\n            break;\n        }", "", [], ["C20"])
mut("c20_mover_needs_strictly_positive", SEE, "(color == game.player && score >= Eval(0))", "(color == game.player && score > Eval(0))", ["C20"])
mut("c20_revert_d9", SEE, "                    Player::Black => potential_attacker_squares\n                        .flip_vertically()\n                        .lsb()\n                        .flip_vertically()\n                        .single(),", "                    Player::Black => potential_attacker_squares.lsb().single(),", ["C20"])


def run(cmd, env=None, timeout=3600):
    e = dict(os.environ)
    if env:
        e.update(env)
    p = subprocess.run(cmd, shell=True, capture_output=True, text=True, env=e, timeout=timeout)
    return p.returncode, p.stdout + p.stderr


def apply(name):
    file, old, new, expect, control = M[name]
    if os.path.exists(SCRATCH):
        shutil.rmtree(SCRATCH)
    os.makedirs(SCRATCH)
    run(f"rsync -a --exclude target --exclude .git /repo/ {SCRATCH}/")
    path = os.path.join(SCRATCH, file)
    text = open(path).read()
    if old is None:
        return False, "no edit defined"
    if text.count(old) != 1:
        return False, f"pattern occurs {text.count(old)} times in {file}"
    open(path, "w").write(text.replace(old, new))
    return True, ""


def main():
    args = sys.argv[1:]
    if "--list" in args:
        for k, v in M.items():
            print(k, v[3], v[4])
        return
    only = None
    tier = "quick"
    if "--only" in args:
        only = args[args.index("--only") + 1].split(",")
    if "--tier" in args:
        tier = args[args.index("--tier") + 1]
    root = os.environ.get("VERIF_MUT_ROOT", "/verif")
    results_path = f"{root}/mutation_results.json"
    results = json.load(open(results_path)) if os.path.exists(results_path) else {}
    for name in M:
        if only and not any(name.startswith(o) for o in only):
            continue
        ok, why = apply(name)
        if not ok:
            print(f"{name}: SKIPPED ({why})")
            continue
        file, old, new, expect, control = M[name]
        entry = {"file": file, "checks": {}}
        for cid in expect + control:
            t0 = time.time()
            code, out = run(f"cd {root} && ./check.sh {cid} {tier}", env={
                "TCHERAN_SRC": f"{SCRATCH}/src", "VERIF_TARGET": TARGET,
                "VERIF_EVIDENCE_OUT": "/tmp/tcheran-mut-evidence.json"})
            dt = time.time() - t0
            sig = [l for l in out.splitlines() if "signature" in l][:1]
            verdict = {0: "green", 1: "VIOLATION", 2: "infra"}.get(code, str(code))
            role = "expect" if cid in expect else "control"
            good = (verdict == "VIOLATION") if role == "expect" else (verdict == "green")
            entry["checks"][cid] = {"role": role, "verdict": verdict, "seconds": round(dt, 1), "first": (sig[0].strip()[:160] if sig else "")}
            print(f"{name}: {cid} [{role}] -> {verdict} in {dt:.0f}s {'ok' if good else '*** UNEXPECTED ***'} {sig[0].strip()[:120] if sig else ''}")
            if verdict == "infra":
                print(out[-1500:])
        results[name] = entry
        json.dump(results, open(results_path, "w"), indent=1, sort_keys=True)
    if os.path.exists(SCRATCH):
        shutil.rmtree(SCRATCH)


if __name__ == "__main__":
    main()
