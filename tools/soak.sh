#!/bin/bash
# run every quick check under several seeds; any exit != 0 on the unchanged tree is a problem of ours
cd "$(dirname "$0")/.."
for seed in "$@"; do
  for id in C01 C02 C03 C04 C05 C06 C07 C08 C09 C10 C11 C12 C13 C14 C15 C16 C17 C18 C19 C20; do
    out=$(VERIF_SEED=$seed VERIF_EVIDENCE_OUT=/tmp/soak-evidence.json ./check.sh $id quick 2>&1); code=$?
    echo "seed=$seed $id exit=$code $(echo "$out" | grep -E "^$id quick" | tail -1 | cut -c1-120)"
    if [ $code -ne 0 ]; then echo "$out" | grep -E "VIOLATION|INFRA|INCONCLUSIVE|signature" | cut -c1-300; fi
  done
done
