#!/usr/bin/env python3
"""Regression over all seeded changes: apply each patch to a scratch worktree of /repo and run the
quick check of its property from a snapshot of /verif (so that work on /verif can go on meanwhile).
usage: tools/reseed.py <verif-snapshot-dir> [name-prefix ...]   -> <snapshot>/seeded_regression.json"""
import json, os, subprocess, sys, time, glob
snap = sys.argv[1]
only = sys.argv[2:]
WT = '/tmp/reseed-wt'
TGT = '/tmp/reseed-target'
def sh(cmd, **kw):
    return subprocess.run(cmd, shell=True, capture_output=True, text=True, **kw)
sh(f'git -C /repo worktree remove --force {WT}')
r = sh(f'git -C /repo worktree add --detach {WT} HEAD')
assert r.returncode == 0, r.stderr
results = {}
for d in sorted(glob.glob(f'{snap}/seeded/*/')):
    name = os.path.basename(d.rstrip('/'))
    if only and not any(name.startswith(o) for o in only):
        continue
    if 'OUT-OF-DOMAIN' in name:
        continue
    meta = json.load(open(d + 'meta.json'))
    pid = meta['property']
    sh(f'git -C {WT} reset -q --hard HEAD; git -C {WT} clean -fdq -e target')
    a = sh(f'git -C {WT} apply {d}patch.diff')
    if a.returncode != 0:
        a = sh(f'git -C {WT} apply --3way {d}patch.diff')
    if a.returncode != 0:
        results[name] = {'property': pid, 'applied': False, 'note': a.stderr[-300:]}
        print(name, 'PATCH DOES NOT APPLY', flush=True)
        continue
    t0 = time.time()
    env = dict(os.environ, TCHERAN_SRC=f'{WT}/src', VERIF_TARGET=TGT, VERIF_EVIDENCE_OUT='/tmp/reseed-ev.json')
    c = subprocess.run(['./check.sh', pid, 'quick'], cwd=snap, env=env, capture_output=True, text=True)
    first = next((l for l in c.stdout.splitlines() if l.startswith('  [')), '')
    results[name] = {'property': pid, 'applied': True, 'exit': c.returncode, 'seconds': round(time.time() - t0, 1), 'first_violation': first.strip()[:300]}
    print(name, pid, 'exit', c.returncode, f'{time.time()-t0:.0f}s', first.strip()[:140], flush=True)
    json.dump(results, open(f'{snap}/seeded_regression.json', 'w'), indent=1)
sh(f'git -C /repo worktree remove --force {WT}')
missed = [n for n, r in results.items() if r.get('exit') != 1]
print('MISSED or inconclusive:', missed)
