#!/usr/bin/env python3
"""Confirm a seeded change delivered by a sub-agent and run the checks against it.
usage: tools/seeded.py <ID> <name> <outdir> <worktree> [checks...]
 (a) clean + demo.diff: demo passes   (b) clean + patch.diff: existing suite passes
 (c) patch + demo: demo fails         then: ./check.sh <check> quick with TCHERAN_SRC=<worktree>/src
Result is stored under /verif/seeded/<name>/ (patch.diff, demo.diff, meta.json)."""
import json, os, shutil, subprocess, sys, time

def sh(cmd, cwd=None, env=None, timeout=3600):
    e = dict(os.environ); e.update(env or {})
    p = subprocess.run(cmd, shell=True, cwd=cwd, capture_output=True, text=True, env=e, timeout=timeout)
    return p.returncode, p.stdout + p.stderr

pid, name, out, wt = sys.argv[1:5]
checks = sys.argv[5:] or [pid]
meta = json.load(open(f"{out}/meta.json"))
demo_cmd = meta["demo_cmd"]
def reset():
    sh("git reset -q --hard HEAD; git clean -fdq -e target", cwd=wt)
res = {}
reset()
c, o = sh(f"git apply {out}/demo.diff", cwd=wt); assert c == 0, o
c, o = sh(demo_cmd, cwd=wt); res["a_clean_plus_demo_passes"] = (c == 0)
reset()
c, o = sh(f"git apply {out}/patch.diff", cwd=wt); assert c == 0, o
c, o = sh("cargo test --workspace --no-fail-fast --offline 2>&1 | grep -E 'test result'", cwd=wt)
res["b_suite_with_patch"] = o.strip().splitlines()[-1] if o.strip() else "?"
res["b_suite_passes"] = ("181 passed; 0 failed" in o)
c, o = sh(f"git apply {out}/demo.diff", cwd=wt); assert c == 0, o
c, o = sh(demo_cmd, cwd=wt); res["c_patch_plus_demo_fails"] = (c != 0)
# leave only the patch applied, run the checks against that tree
reset()
sh(f"git apply {out}/patch.diff", cwd=wt)
ran = {}
for cid in checks:
    t0 = time.time()
    c, o = sh(f"./check.sh {cid} quick", cwd="/verif", env={"TCHERAN_SRC": f"{wt}/src", "VERIF_TARGET": os.environ.get("SEED_TARGET", "/tmp/tcheran-seed-target"), "VERIF_EVIDENCE_OUT": os.environ.get("SEED_TARGET", "/tmp/tcheran-seed-target") + "-evidence.json"})
    sig = [l.strip() for l in o.splitlines() if "(signature" in l][:2]
    ran[cid] = {"exit": c, "seconds": round(time.time() - t0, 1), "first_violation": sig[0][:300] if sig else ""}
    print(cid, "exit", c, f"{time.time()-t0:.0f}s", sig[0][:200] if sig else "")
reset()
d = f"/verif/seeded/{name}"
os.makedirs(d, exist_ok=True)
shutil.copy(f"{out}/patch.diff", d); shutil.copy(f"{out}/demo.diff", d)
meta["breaks_property"] = pid
meta["confirmed_by_me"] = res
meta["checks_run_against_it"] = ran
meta["how_run"] = "patch applied to a scratch worktree of /repo; ./check.sh <ID> quick with TCHERAN_SRC pointing at it"
json.dump(meta, open(f"{d}/meta.json", "w"), indent=1)
print(json.dumps(res), "caught_by", [k for k, v in ran.items() if v["exit"] == 1])
