#!/usr/bin/env python3
"""Regenerates /verif/MANIFEST.json from the table below (kept in one place so that it stays valid)."""
import json, subprocess

def repo_commits(prefix):
    out = subprocess.run(["git", "-C", "/repo", "log", "--format=%h %s"], capture_output=True, text=True).stdout
    return [l.split()[0] for l in out.splitlines() if l.split(" ", 1)[1].startswith(prefix)]

CHECKS = {
 "C01": ("differential proptest vs independent reference move generator (walks, constructive themes, two-ply); exhaustive enumeration of all 107 648 slider line occupancy patterns through the move generator",
         "Generated legal positions (repository FENs, constructive e.p./pin/check/castling/promotion themes, random placements, weighted walks) are compared pointwise with an independent mailbox implementation of the rules: move set, flags, check verdict, staged vs one-shot generation. Exploration: held on everything generated; no absence claim.",
         "Trusted: the reference model in harness/src/refchess.rs (self-tested against published perft totals at every run); positions are statically legal by the property's definition plus promotion-feasible material and a one-move-reachable e.p. state.", "3/C01"),
 "C02": ("model-based proptest over make/null/undo histories against the reference model, field-by-field snapshots; thorough tier: coverage-guided libFuzzer campaign on the choice tape, oracle inside the target",
         "Op sequences (make / null move / take back, nested up to 40 deep, then fully unwound) interpreted on the engine Game and on a stack of reference positions; after every op the successor is compared field by field with the rules, the three board views are cross-checked, every take-back must restore the complete snapshot. Plus every legal move of every walk position once.",
         "Trusted: reference model; the e.p. recording convention (target only when an enemy pawn stands beside the pushed pawn) is taken from the code as the property's anchor says.", "3/C02"),
 "C03": ("proptest histories with incremental-vs-scratch key oracle, run-wide identity<->key bijection, directed twins, exhaustive component enumeration; thorough tier: coverage-guided libFuzzer campaign on the choice tape, oracle inside the target",
         "After every op of generated histories the carried key must equal zobrist::hash; a run-wide map keeps identity -> key functional and injective; near-miss twins must differ in key; all 838 key components are enumerated through the public API (exhaustive for that part).",
         "Trusted: reference identity (placement, side, rights, recorded e.p. target). A true 64-bit collision among <= 10^7 identities has probability < 1e-5 and would itself contradict the statement.", "3/C03"),
 "C04": ("proptest over search sessions (positions x limits x hash sizes x earlier searches), panic/termination/legality oracle, in checked and optimised profiles",
         "Lists of searches on one PersistentState with depth, movetime and clock limits, hash 0..16(64) MB, forced-mate themes so that scores jump to mate under the aspiration window, and 300-search sessions; every search must return, not panic (overflow, index and debug assertions are panics in the checked profile) and give a reference-legal move. Repeated in the optimised profile.",
         "Trusted: reference model for legality; a per-case watchdog re-runs a slow case alone before calling it non-terminating. Time-limited cases depend on the wall clock (their oracle does not). Lines >= 250 plies and Syzygy paths are out of generated reach.", "3/C04"),
 "C05": ("generated UCI command sessions with generated timings and injected delays against the shipped binary; blocked-process liveness oracle; randomized two-thread stress of the completion latch (reset/set/wait hand-overs with generated jitter)",
         "Conforming command histories with generator-chosen timing (same write, after n ms, right after bestmove) and per-session delays at six hook points of the go/stop/ucinewgame paths; model of owed answers (readyok per isready, exactly one bestmove per go, exit 0 after quit). A missing answer is a violation only when /proc shows the process blocked. Schedules are sampled, not enumerated.",
         "Trusted: Linux /proc task states; hook H2 delays only select schedules the unmodified program already has. Liveness is approximated by deadlines plus the blocked test.", "3/C05"),
 "C06": ("round-trip proptest from reader-independent positions, systematic corruption grammar, FEN-shaped and arbitrary strings, independent board-field tokeniser; libFuzzer target in thorough; round trip of positions reached by play",
         "write/parse round trips on positions built without the reader (clocks and move numbers up to 2^31-1) against the reference FEN text; hostile text from systematic corruptions, FEN-shaped regexes and arbitrary Unicode: never a panic, wrong rank widths rejected, accepted placements equal an independent tokeniser's decoding.",
         "Trusted: reference FEN writer and the harness tokeniser.", "3/C06"),
 "C07": ("exhaustive enumeration of all 107,648 relevant blocker subsets (+ noise on irrelevant bits), leapers and between table against coordinate geometry; checked-build bounds",
         "Complete enumeration of the slider tables over every subset of each square's relevant mask, each with noise patterns on irrelevant bits, all knight/king/pawn entries and all 64x64 between entries, against ray walks written in the harness; plus random 64-bit occupancies. Out-of-range unchecked indices abort in the checked build and are reported.",
         "Trusted: the coordinate ray-walk oracle in harness/src/props/c07.rs; rustc's debug-assertions UB checks for get_unchecked.", "3/C07"),
 "C08": ("proptest over depth-limited searches with a recording Reporter; PV legality and mate-announcement oracle via the reference model; deep searches (depth 15-19) of sparse mating endings and all 255 iterations on dead-draw material",
         "Every SearchInfo of generated searches (mate themes for and against the mover, table contents from parent/child/sibling searches, small tables): depths 1,2,3.. within the limit, non-empty PV of reference-legal moves, Mate(n) with exactly matching length ending in checkmate of the right side.",
         "Trusted: reference model. Tablebase PV path unreachable without Syzygy files.", "3/C08"),
 "C09": ("stop injection at every poll index via hook H1 (enumerated per search up to 24, sampled above), poll-count equality, follow-up search oracle; real Control::stop from another thread; the position where the stop was observed (hook H3) is searched next on the same tables",
         "For each generated search the number N of stop-flag polls is measured, then the search is repeated with the flag reading true from poll k on, for all k (N <= 24) or 16 chosen k: legal move, polls == k (nothing examined after the stop), reported lines valid, game untouched, follow-up search on the same tables valid.",
         "Trusted: hook H1 (thread-local countdown consulted where the flag is loaded); poll points are those of the real 10,000-node schedule.", "3/C09"),
 "C10": ("proptest over (position, hash move, killer/counter/history table contents, ply) with permutation oracle against engine list and reference set; thorough tier: coverage-guided libFuzzer campaign on the choice tape, oracle inside the target",
         "The full picker stream must be a permutation of the legal moves with the hash move first, for generated killer pairs, counter moves (legal here, legal elsewhere, arbitrary), history scores and plies 0..254; the captures-only stream a duplicate-free legal subset containing every capture and queen promotion.",
         "Trusted: reference model; table contents are installed through the engine's own try_push/set/add_bonus_for (reachable contents only).", "3/C10"),
 "C11": ("model-based proptest over game histories with shuffle bias; repetition / fifty-move / dead-material verdicts against the reference's own history list; search-level oracles (a drawing reply bounds the score at 0, every-reply-draws means exactly 0, no history draw stored in the shared table)",
         "After every move of generated games (FEN roots with clocks around 100, shuffling to force repetitions, rights/e.p. spoilers) the three draw predicates are compared with the reference's own scan of earlier positions; with search-like null moves only the direction 'true => exists' is asserted.",
         "Trusted: reference identity and clock.", "3/C11"),
 "C12": ("trace-equality proptest: same prepared state twice, reset vs fresh, in both profiles under load; ucinewgame session vs fresh process on the shipped binary; 255-512 search sessions and Hash resize before reset",
         "Identical preparation must give identical traces (every reported field and the best move); reset() after arbitrary earlier searches must equal a fresh state; on the binary, a session with ucinewgame must print the same lines (minus time/nps) as a fresh process.",
         "Trusted: nothing beyond the engine itself (metamorphic). Bench comparison only in thorough.", "3/C12"),
 "C13": ("generated setoption/isready/position/go sessions over the ranges parsed from the engine's own uci answer; in-process resize twin; exhaustive grid of Move Overhead x clocks in-process; time-limited searches at the smallest Hash",
         "Option ranges are read from the 'uci' answer; sessions set boundary and interior values in any order between searches; every isready answered, every go answered by a reference-legal bestmove, clean exit.",
         "Trusted: reference model for legality. 1024 MB sessions run at most 6 at a time.", "3/C13"),
 "C14": ("exhaustive grid + random tuples through the limits accessor (hook H1) with f32 tolerance; go-parser field oracle; wall-clock measurements with 3x solo confirmation; per-node clock gate driven with node counters around 2^16..2^40; wall clock late in long sessions on large tables, with depth limits and fixed move times",
         "hard <= (remaining-overhead)/2 and soft <= hard on a 64,512-tuple grid and 10^6 random tuples; movetime used as given; go arguments land in their fields; on the binary the time from go to bestmove stays below the remaining time (an overrun must repeat in three solo re-runs to count).",
         "Trusted: hook accessor returns the fields the search uses; tolerance 2^-20 relative + 1 us for f32 arithmetic. The wall-clock half is statistical.", "3/C14"),
 "C15": ("proptest histories; incremental accumulators vs IncrementalEvalFields::init and eval path independence after every op; thorough tier: coverage-guided libFuzzer campaign on the choice tape, oracle inside the target",
         "After every make / null / take-back the phase counter and piece-square accumulator must equal recomputation from the board, and eval(game) must equal eval of the rebuilt position.",
         "Trusted: the engine's own from-scratch computation as the oracle for the incremental one (differential within the code).", "3/C15"),
 "C16": ("metamorphic proptest (mirror twins), blend-interval oracle via forced phase, exhaustive-ish triples for PhasedEval::for_phase; constructed pairs of legal positions whose keys agree on 32-64 chosen bits (GF(2) elimination over the key words) evaluated back to back; games taken back from 1100+ plies; thorough tier: coverage-guided libFuzzer campaign on the choice tape, oracle inside the target",
         "eval(P) == eval(mirror P), not a mate score, within [mg, eg] obtained by forcing the phase field; blend triples over mg, eg in +-20000 and phase 0..88.",
         "Trusted: reference mirror; pub phase field to obtain pure middlegame/endgame values.", "3/C16"),
 "C17": ("generated legal games sent as 'position ... moves ...' to the shipped binary; FEN dump, reply set and bestmove against the reference model; parser twin; cases preceded by a position command whose start position has the same 64-bit key (constructed collision)",
         "Games of up to 250 plies with castling, e.p. and all promotion pieces; after the position command the engine's FEN dump, its perftdiv 1 move set and its depth-1 bestmove must match the reference final position.",
         "Trusted: reference model incl. the recorded-e.p. convention for the FEN dump.", "3/C17"),
 "C18": ("proptest over every legal move of tactical positions; uniqueness, reference SAN body/suffix and read-back oracle; thorough tier: coverage-guided libFuzzer campaign on the choice tape, oracle inside the target",
         "format_move must be unique among the legal moves, equal the reference SAN body, carry a check/mate suffix exactly when the move checks, and parse_move must return the same move.",
         "Trusted: reference SAN writer (FIDE C.10 minimal disambiguation).", "3/C18"),
 "C19": ("model-based proptest over insert/probe/new-search/reset/resize with colliding keys; admissible-set model with true search counter; known-finding classification by an aliasing model; 128-520 MB tables with keys in edge slots; engine reset path after 1-513 real searches",
         "The table is driven next to a model that keeps, per slot, the set of entries the statement admits; probes narrow the set; statistics and emptiness after reset/resize are exact. Discrepancies explained exactly by 8-bit age aliasing are the listed known finding; anything else is a violation.",
         "Trusted: calculate_number_of_entries for the slot layout (size 0: weak oracle).", "3/C19"),
 "C20": ("metamorphic (mirror) + rule oracles + independent branching swap-list minimax over every legal capture of tactical positions; constructed key-collision pairs containing the same capture with different verdicts; piece values probed from the engine; thorough tier: coverage-guided libFuzzer campaign on the choice tape, oracle inside the target",
         "see(m, 0) must be mirror-invariant, true on undefended targets and when victim >= attacker, and equal an independent swap-list minimax whenever all tie-break branches agree.",
         "Trusted: the harness swap-list (values 100/300/300/500/900, pins ignored, king captures only when undefended).", "3/C20"),
}

m = {
 "version": 1,
 "setup_cmd": "./check.sh setup",
 "hooks": {
  "guard": "jgilchrist_tcheran_verif",
  "enable": "the harness crate compiles /repo/src by #[path] with cfg jgilchrist_tcheran_verif (harness/build.rs); the shipped binary is built with RUSTFLAGS='--cfg jgilchrist_tcheran_verif' cargo build --release --no-default-features --features release (check.sh)",
  "baseline_off_cmd": "cd /repo && cargo test --workspace --no-fail-fast --offline",
  "source_commits": repo_commits("verif hook"),
  "add_only": True,
 },
 "engines": [
  {"name": "check", "path": "harness/src/bin/check.rs", "serves_properties": sorted(CHECKS), "kind_free_text": "proptest TestRunner (fixed seeds from VERIF_SEED, 16 workers) + exhaustive enumerators + UCI process driver; engine sources compiled into the harness crate"},
  {"name": "fuzz", "path": "fuzz/", "serves_properties": ["C01", "C02", "C03", "C06", "C10", "C15", "C16", "C18", "C20"], "kind_free_text": "cargo-fuzz / libFuzzer targets with the semantic oracle inside (thorough tier only): fen_reader (C06), movegen (C01), histories (C02 C03 C15), picker (C10), positions (C16 C18 C20); the fuzz bytes are a choice tape for the same deterministic builders the proptest parts use"},
 ],
 "checks": [],
 "not_applicable": [],
 "notes": "Known findings: known_findings.json (status known suppresses exactly that signature; status fixed is documentation). Saved regression cases: regress/. Replay: ./check.sh <ID> replay <file>.",
}
for pid in sorted(CHECKS):
    tech, text, note, ref = CHECKS[pid]
    m["checks"].append({
        "property_id": pid,
        "quick_cmd": f"./check.sh {pid} quick",
        "thorough_cmd": f"./check.sh {pid} thorough",
        "evidence_file": f"evidence/{pid}.json",
        "replay_cmd_template": f"./check.sh {pid} replay {{path}}",
        "engine": "check",
        "level_claimed": {"category": "exploration", "text": text, "design_ref": f"DESIGN.md section {ref}"},
        "level_note": note,
        "technique": tech,
    })
json.dump(m, open("/verif/MANIFEST.json", "w"), indent=1)
print("checks:", len(m["checks"]), "hook commits:", m["hooks"]["source_commits"])
