//! check <ID> --tier quick|thorough [--replay <file>] [--parts a,b]
use tv::framework::{infra, Run, Tier};

fn main() {
    let args: Vec<String> = std::env::args().collect();
    if args.len() < 2 {
        eprintln!("usage: check <ID> [--tier quick|thorough] [--replay file] [--parts a,b]");
        std::process::exit(2);
    }
    let id = args[1].clone();
    let mut tier = match std::env::var("VERIF_TIER").as_deref() {
        Ok("thorough") => Tier::Thorough,
        _ => Tier::Quick,
    };
    let mut replay: Option<String> = None;
    let mut parts: Vec<String> = vec![];
    let mut i = 2;
    while i < args.len() {
        match args[i].as_str() {
            "--tier" => {
                i += 1;
                tier = match args.get(i).map(String::as_str) {
                    Some("quick") => Tier::Quick,
                    Some("thorough") => Tier::Thorough,
                    _ => infra("bad --tier"),
                };
            }
            "--replay" => {
                i += 1;
                replay = args.get(i).cloned();
            }
            "--parts" => {
                i += 1;
                parts = args.get(i).map(|s| s.split(',').map(str::to_string).collect()).unwrap_or_default();
            }
            other => infra(&format!("unknown argument {other}")),
        }
        i += 1;
    }
    tv::framework::install_panic_hook();
    // Table initialisation takes milliseconds. If it does not finish (e.g. a table generator that
    // loops forever) nothing can be checked: for C07 (the tables themselves) that is the violation,
    // for every other property it is an infrastructure problem.
    let init_done = std::sync::Arc::new(std::sync::atomic::AtomicBool::new(false));
    {
        let done = init_done.clone();
        let id = id.clone();
        std::thread::spawn(move || {
            for _ in 0..1200 {
                std::thread::sleep(std::time::Duration::from_millis(100));
                if done.load(std::sync::atomic::Ordering::Relaxed) {
                    return;
                }
            }
            if id == "C07" {
                let dir = format!("{}/replays", tv::framework::verif_root());
                let _ = std::fs::create_dir_all(&dir);
                let path = format!("{dir}/C07-init-does-not-terminate.json");
                let _ = std::fs::write(&path, "{\"property\": \"C07\", \"part\": \"tables\", \"case\": {\"Leapers\": {\"square\": 0}}, \"message\": \"table initialisation (chess::init) did not finish within 120 s\"}");
                println!("table initialisation did not finish within 120 s");
                println!("VIOLATION property=C07 replay={path}");
                std::process::exit(1);
            }
            println!("INFRASTRUCTURE: engine initialisation did not finish within 120 s");
            std::process::exit(2);
        });
    }
    tv::init();
    init_done.store(true, std::sync::atomic::Ordering::Relaxed);
    if id == "selftest" {
        match tv::refchess::self_test(true) {
            Ok(()) => {
                println!("refchess self-test ok");
                return;
            }
            Err(e) => infra(&format!("reference model self-test failed: {e}")),
        }
    }
    if let Err(e) = tv::refchess::self_test(false) {
        infra(&format!("reference model self-test failed: {e}"));
    }
    let Some(pid) = tv::props::ALL.iter().find(|p| **p == id) else {
        infra(&format!("unknown property {id}"));
    };
    let mut run = Run::new(pid, tier);
    run.only_parts = parts;
    if let Some(path) = replay {
        let text = std::fs::read_to_string(&path).unwrap_or_else(|e| infra(&format!("cannot read {path}: {e}")));
        let v: serde_json::Value = serde_json::from_str(&text).unwrap_or_else(|e| infra(&format!("bad replay file: {e}")));
        let part = v["part"].as_str().unwrap_or("").to_string();
        run.replay = Some((part, v["case"].clone()));
    }
    let rule = tv::props::dispatch(pid, &mut run).unwrap();
    let code = run.finish(rule);
    std::process::exit(code);
}
