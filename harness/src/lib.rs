//! Verification harness for jgilchrist/tcheran: the engine's own sources are compiled into this
//! crate (see build.rs), next to an independent reference model and the property checks.
#![allow(dead_code, unused_imports, clippy::all)]

include!(concat!(env!("OUT_DIR"), "/roots.rs"));

// The three crate-root items the engine sources refer to as `crate::…` (copies of main.rs's).
pub use engine::uci;
pub const ENGINE_NAME: &str = "Tcheran";
pub fn engine_version() -> String {
    "verif".to_string()
}
pub fn init() {
    static ONCE: std::sync::Once = std::sync::Once::new();
    ONCE.call_once(|| {
        chess::init();
        engine::init();
    });
}

pub mod adapter;
pub mod refchess;
pub mod framework;
pub mod gen;
pub mod props;
pub mod roots_data;
