//! Shared machinery of the checks: parallel proptest runner with fixed seeds, case statistics,
//! replay files, known findings, evidence files, panic handling.

use proptest::strategy::{Strategy, ValueTree};
use proptest::test_runner::{Config, RngAlgorithm, RngSeed, TestCaseError, TestError, TestRng, TestRunner};
use serde::de::DeserializeOwned;
use serde::Serialize;
use serde_json::{json, Map, Value};
use std::cell::{Cell, RefCell};
use std::collections::{BTreeMap, HashSet};
use std::hash::{Hash, Hasher};
use std::panic::{catch_unwind, AssertUnwindSafe};
use std::path::PathBuf;
use std::sync::atomic::{AtomicBool, AtomicU64, Ordering};
use std::sync::Mutex;
use std::time::Instant;

/// Root of the verification tree (evidence/, replays/, regress/, known_findings.json): $VERIF_ROOT
/// as exported by check.sh (the directory it lives in), default /verif.
pub fn verif_root() -> String {
    std::env::var("VERIF_ROOT").unwrap_or_else(|_| "/verif".to_string())
}

#[derive(Clone, Copy, PartialEq, Eq, Debug)]
pub enum Tier {
    Quick,
    Thorough,
}

impl Tier {
    pub fn name(self) -> &'static str {
        match self {
            Tier::Quick => "quick",
            Tier::Thorough => "thorough",
        }
    }
    pub fn pick<T>(self, quick: T, thorough: T) -> T {
        match self {
            Tier::Quick => quick,
            Tier::Thorough => thorough,
        }
    }
}

/// A failed case: message, a root-cause signature (matched against known findings) and extra
/// observations for the replay file.
#[derive(Debug, Clone)]
pub struct Fail {
    pub msg: String,
    pub signature: String,
    pub observed: Value,
    /// fully explicit form of the failing case (FEN, move list …) that the part can re-execute
    /// without the generator; written as the replay file's `case` when present
    pub explicit: Option<Value>,
}

impl Fail {
    pub fn new(signature: &str, msg: String) -> Fail {
        Fail {
            msg,
            signature: signature.to_string(),
            observed: Value::Null,
            explicit: None,
        }
    }
    pub fn explicit(mut self, case: Value) -> Fail {
        self.explicit = Some(case);
        self
    }
    pub fn with(mut self, observed: Value) -> Fail {
        self.observed = observed;
        self
    }
}

#[macro_export]
macro_rules! fail {
    ($sig:expr, $($arg:tt)*) => {
        return Err($crate::framework::Fail::new($sig, format!($($arg)*)))
    };
}

#[macro_export]
macro_rules! ensure {
    ($cond:expr, $sig:expr, $($arg:tt)*) => {
        if !($cond) {
            return Err($crate::framework::Fail::new($sig, format!($($arg)*)));
        }
    };
}

/// Per-worker statistics, merged at the end of a part.
#[derive(Default)]
pub struct Stats {
    pub evaluations: u64,
    pub classes: BTreeMap<String, u64>,
    pub nontrivial: HashSet<u64>,
    pub samples: Vec<Value>,
    pub nontrivial_samples: Vec<Value>,
    pub known: BTreeMap<String, u64>,
    pub discards: u64,
    /// the distinct-case set stopped growing at NONTRIVIAL_CAP entries per worker (memory bound);
    /// the reported count is then a lower bound
    pub nontrivial_capped: bool,
    frozen: bool,
}

pub const MAX_SAMPLES: usize = 4;
pub const NONTRIVIAL_CAP: usize = 3_000_000;

impl Stats {
    /// one oracle evaluation (one position, one move, one search … as the property defines it)
    pub fn eval(&mut self) {
        if !self.frozen {
            self.evaluations += 1;
        }
    }
    pub fn evals(&mut self, n: u64) {
        if !self.frozen {
            self.evaluations += n;
        }
    }
    pub fn class(&mut self, name: &str) {
        if !self.frozen {
            *self.classes.entry(name.to_string()).or_insert(0) += 1;
        }
    }
    pub fn class_n(&mut self, name: &str, n: u64) {
        if !self.frozen && n > 0 {
            *self.classes.entry(name.to_string()).or_insert(0) += n;
        }
    }
    /// record a distinct non-trivial case by the hash of its identity
    pub fn nontrivial<H: Hash>(&mut self, identity: &H) {
        if !self.frozen {
            if self.nontrivial.len() < NONTRIVIAL_CAP {
                self.nontrivial.insert(hash_of(identity));
            } else {
                self.nontrivial_capped = true;
            }
        }
    }
    pub fn discard(&mut self) {
        if !self.frozen {
            self.discards += 1;
        }
    }
    pub fn want_sample(&self) -> bool {
        !self.frozen && self.samples.len() < MAX_SAMPLES
    }
    pub fn want_nontrivial_sample(&self) -> bool {
        !self.frozen && self.nontrivial_samples.len() < MAX_SAMPLES
    }
    pub fn sample(&mut self, v: Value) {
        if self.want_sample() {
            self.samples.push(v);
        }
    }
    pub fn nontrivial_sample(&mut self, v: Value) {
        if self.want_nontrivial_sample() {
            self.nontrivial_samples.push(v);
        }
    }
    pub fn known(&mut self, sig: &str) {
        if !self.frozen {
            *self.known.entry(sig.to_string()).or_insert(0) += 1;
        }
    }
    fn merge(&mut self, o: Stats) {
        self.evaluations += o.evaluations;
        self.discards += o.discards;
        self.nontrivial_capped |= o.nontrivial_capped;
        for (k, v) in o.classes {
            *self.classes.entry(k).or_insert(0) += v;
        }
        for (k, v) in o.known {
            *self.known.entry(k).or_insert(0) += v;
        }
        self.nontrivial.extend(o.nontrivial);
        for s in o.samples {
            if self.samples.len() < 2 * MAX_SAMPLES {
                self.samples.push(s);
            }
        }
        for s in o.nontrivial_samples {
            if self.nontrivial_samples.len() < 2 * MAX_SAMPLES {
                self.nontrivial_samples.push(s);
            }
        }
    }
}

pub fn hash_of<H: Hash>(h: &H) -> u64 {
    let mut s = std::collections::hash_map::DefaultHasher::new();
    h.hash(&mut s);
    s.finish()
}

// ------------------------------------------------------------------------------------------------
// known findings

#[derive(Clone, Debug)]
pub struct KnownFinding {
    pub status: String,
    pub property: String,
    pub signature: String,
    pub what: String,
}

pub fn load_known_findings() -> Vec<KnownFinding> {
    let path = format!("{}/known_findings.json", verif_root());
    let Ok(text) = std::fs::read_to_string(&path) else {
        return vec![];
    };
    let v: Value = serde_json::from_str(&text).unwrap_or_else(|e| infra(&format!("known_findings.json: {e}")));
    let mut out = vec![];
    for f in v["findings"].as_array().cloned().unwrap_or_default() {
        out.push(KnownFinding {
            status: f["status"].as_str().unwrap_or("").to_string(),
            property: f["property"].as_str().unwrap_or("").to_string(),
            signature: f["signature"].as_str().unwrap_or("").to_string(),
            what: f["what"].as_str().unwrap_or("").to_string(),
        });
    }
    out
}

// ------------------------------------------------------------------------------------------------
// panic handling

thread_local! {
    static LAST_PANIC: RefCell<Option<String>> = const { RefCell::new(None) };
    /// (property, part, pointer to current case, serialiser) for non-unwinding panics
    static CURRENT: Cell<Option<(*const (), fn(*const ()) -> Value)>> = const { Cell::new(None) };
    static CURRENT_PART: RefCell<(String, String)> = RefCell::new((String::new(), String::new()));
    static QUIET_PANICS: Cell<bool> = const { Cell::new(false) };
}

static HOOK_INSTALLED: std::sync::Once = std::sync::Once::new();

pub fn install_panic_hook() {
    HOOK_INSTALLED.call_once(|| {
        std::panic::set_hook(Box::new(|info| {
            let payload = if let Some(s) = info.payload().downcast_ref::<&str>() {
                s.to_string()
            } else if let Some(s) = info.payload().downcast_ref::<String>() {
                s.clone()
            } else {
                "<non-string panic payload>".to_string()
            };
            let loc = info
                .location()
                .map(|l| format!("{}:{}", l.file(), l.line()))
                .unwrap_or_default();
            let msg = format!("{payload} @ {loc}");
            if payload.starts_with("unsafe precondition(s) violated") || payload.contains("cannot unwind") {
                // e.g. "unsafe precondition(s) violated: slice::get_unchecked": the process is about
                // to abort; report the case being executed on this thread as the violation.
                let (prop, part) = CURRENT_PART.with(|c| c.borrow().clone());
                let case = CURRENT.with(|c| c.get()).map(|(p, f)| f(p)).unwrap_or(Value::Null);
                let path = write_replay_file(
                    &prop,
                    &part,
                    &case,
                    &format!("non-unwinding panic: {msg}"),
                    "abort",
                    &Value::Null,
                    false,
                );
                println!("non-unwinding panic: {msg}");
                println!("VIOLATION property={prop} replay={path}");
                use std::io::Write;
                let _ = std::io::stdout().flush();
                std::process::exit(1);
            }
            let in_case = CURRENT.with(|c| c.get()).is_some();
            LAST_PANIC.with(|l| *l.borrow_mut() = Some(msg.clone()));
            if !in_case && !QUIET_PANICS.with(|q| q.get()) {
                eprintln!("panic outside a case: {msg}");
            }
        }));
    });
}

/// Run `f`, turning an unwinding panic into `Err(message @ location)`.
pub fn catch<T>(f: impl FnOnce() -> T) -> Result<T, String> {
    let prev = QUIET_PANICS.with(|q| q.replace(true));
    let r = catch_unwind(AssertUnwindSafe(f));
    QUIET_PANICS.with(|q| q.set(prev));
    r.map_err(|_| {
        LAST_PANIC
            .with(|l| l.borrow_mut().take())
            .unwrap_or_else(|| "panic".to_string())
    })
}

/// Reduce a panic message to a stable signature (location without line noise is kept: file:line).
pub fn panic_signature(msg: &str) -> String {
    // "attempt to add with overflow @ /repo/src/engine/search/aspiration.rs:33"
    // -> first line of the message + file:line relative to the source root
    let (text, loc) = match msg.rfind(" @ ") {
        Some(i) => (&msg[..i], &msg[i + 3..]),
        None => (msg, ""),
    };
    let first = text.lines().next().unwrap_or("");
    let loc = match loc.rfind("/src/") {
        Some(i) => &loc[i + 5..],
        None => loc,
    };
    format!("{first} @ {loc}")
}

pub fn infra(msg: &str) -> ! {
    println!("INFRASTRUCTURE: {msg}");
    std::process::exit(2);
}

// ------------------------------------------------------------------------------------------------
// replay files

fn write_replay_file(
    prop: &str,
    part: &str,
    case: &Value,
    msg: &str,
    signature: &str,
    observed: &Value,
    shrunk: bool,
) -> String {
    let dir = format!("{}/replays", verif_root());
    let _ = std::fs::create_dir_all(&dir);
    let body = json!({
        "property": prop,
        "part": part,
        "case": case,
        "message": msg,
        "signature": signature,
        "observed": observed,
        "shrunk": shrunk,
        "seed": seed_from_env(),
        "profile": profile_name(),
    });
    let text = serde_json::to_string_pretty(&body).unwrap();
    let h = hash_of(&(prop, part, case.to_string()));
    let path = format!("{dir}/{prop}-{part}-{:012x}.json", h & 0xffff_ffff_ffff);
    let _ = std::fs::write(&path, text);
    path
}

/// Saved explicit cases under /verif/regress/<ID>-<part>-*.json (committed; replay-file format).
pub fn load_regress(id: &str, part: &str) -> Vec<(String, Value)> {
    let dir = format!("{}/regress", verif_root());
    let mut out = vec![];
    let Ok(rd) = std::fs::read_dir(&dir) else { return out };
    let mut names: Vec<String> = rd.filter_map(|e| e.ok()).map(|e| e.file_name().to_string_lossy().to_string()).collect();
    names.sort();
    let prefix = format!("{id}-{part}-");
    for n in names {
        if !n.starts_with(&prefix) || !n.ends_with(".json") {
            continue;
        }
        let path = format!("{dir}/{n}");
        let Ok(text) = std::fs::read_to_string(&path) else { continue };
        match serde_json::from_str::<Value>(&text) {
            Ok(v) => out.push((path, v["case"].clone())),
            Err(e) => infra(&format!("bad regress file {path}: {e}")),
        }
    }
    out
}

pub fn seed_from_env() -> u64 {
    std::env::var("VERIF_SEED")
        .ok()
        .and_then(|s| s.trim().parse::<i128>().ok())
        .map(|v| v as u64)
        .unwrap_or(1)
}

pub fn profile_name() -> &'static str {
    if cfg!(debug_assertions) {
        "checked"
    } else {
        "fast"
    }
}

// ------------------------------------------------------------------------------------------------
// a run of one property

pub struct PartReport {
    pub name: String,
    pub cases: u64,
    pub stats: Stats,
    pub exhaustive: bool,
    pub rule: String,
    pub wall_s: f64,
    pub extra: Map<String, Value>,
}

pub struct Violation {
    pub part: String,
    pub msg: String,
    pub signature: String,
    pub replay: String,
}

pub struct Run {
    pub id: &'static str,
    pub tier: Tier,
    pub seed: u64,
    pub workers: usize,
    /// replay mode: (part, case)
    pub replay: Option<(String, Value)>,
    pub parts: Vec<PartReport>,
    pub violations: Vec<Violation>,
    pub known: Vec<KnownFinding>,
    pub started: Instant,
    pub assumptions: Vec<String>,
    pub extra: Map<String, Value>,
    /// only run parts whose name is listed (sub-process mode), empty = all
    pub only_parts: Vec<String>,
    /// per-case wall-clock budget for parts whose cases must terminate (searches); None = no watchdog
    pub watchdog_secs: Option<u64>,
    /// budget for proptest's shrinking of a failing case (ms) and maximal number of shrink steps
    pub max_shrink_ms: u32,
    pub max_shrink_iters: u32,
}

impl Run {
    pub fn new(id: &'static str, tier: Tier) -> Run {
        install_panic_hook();
        let workers = std::env::var("VERIF_WORKERS")
            .ok()
            .and_then(|s| s.parse().ok())
            .unwrap_or_else(|| std::thread::available_parallelism().map(|n| n.get()).unwrap_or(8).min(16));
        Run {
            id,
            tier,
            seed: seed_from_env(),
            workers,
            replay: None,
            parts: vec![],
            violations: vec![],
            known: load_known_findings()
                .into_iter()
                .filter(|k| k.property == id && k.status == "known")
                .collect(),
            started: Instant::now(),
            assumptions: vec![],
            extra: Map::new(),
            only_parts: vec![],
            watchdog_secs: None,
            max_shrink_ms: 120_000,
            max_shrink_iters: 4096,
        }
    }

    pub fn assume(&mut self, s: &str) {
        self.assumptions.push(s.to_string());
    }

    fn part_enabled(&self, name: &str) -> bool {
        if let Some((p, _)) = &self.replay {
            return p == name;
        }
        self.only_parts.is_empty() || self.only_parts.iter().any(|p| p == name)
    }

    fn is_known(&self, sig: &str) -> bool {
        self.known.iter().any(|k| k.signature == sig)
    }

    /// Generated-input part: `total_cases` cases of `strategy`, split over the workers, each worker a
    /// proptest `TestRunner` with a fixed seed derived from VERIF_SEED. The first failure is shrunk by
    /// proptest and written as a replay file.
    pub fn proptest_part<C, S, F>(&mut self, name: &str, rule: &str, strategy: S, total_cases: u64, f: F)
    where
        C: Serialize + DeserializeOwned + std::fmt::Debug + Clone + Send + 'static,
        S: Strategy<Value = C> + Sync,
        F: Fn(&C, &mut Stats) -> Result<(), Fail> + Sync,
    {
        if !self.part_enabled(name) {
            return;
        }
        let t0 = Instant::now();
        CURRENT_PART.with(|c| *c.borrow_mut() = (self.id.to_string(), name.to_string()));
        // ---- replay mode: run exactly the stored case, strict (known findings are not suppressed
        // unless listed, same as in generation mode)
        if let Some((_, case_v)) = self.replay.clone() {
            let case: C = match serde_json::from_value(case_v.clone()) {
                Ok(c) => c,
                Err(e) => infra(&format!("replay case does not deserialise for part {name}: {e}")),
            };
            let mut st = Stats::default();
            let replay_done = std::sync::Arc::new(AtomicBool::new(false));
            if let Some(secs) = self.watchdog_secs {
                let done = replay_done.clone();
                let (id, part, cv) = (self.id, name.to_string(), case_v.clone());
                std::thread::spawn(move || {
                    let t0 = Instant::now();
                    while t0.elapsed().as_secs() < secs {
                        std::thread::sleep(std::time::Duration::from_millis(200));
                        if done.load(Ordering::Relaxed) {
                            return;
                        }
                    }
                    let path = write_replay_file(id, &part, &cv, &format!("case did not finish within {secs} s when run alone"), "does_not_terminate", &Value::Null, true);
                    println!("replay: case did not finish within {secs} s when run alone");
                    println!("VIOLATION property={id} replay={path}");
                    use std::io::Write;
                    let _ = std::io::stdout().flush();
                    std::process::exit(1);
                });
            }
            let r = run_case(&f, &case, &mut st);
            replay_done.store(true, Ordering::Relaxed);
            match r {
                Ok(()) => println!("replay: case passes ({} evaluations)", st.evaluations),
                Err(fail) => {
                    if self.is_known(&fail.signature) {
                        println!("KNOWN-FINDING: property={} {} [{}]", self.id, fail.msg, fail.signature);
                    } else {
                        let path = write_replay_file(self.id, name, &case_v, &fail.msg, &fail.signature, &fail.observed, true);
                        println!("replay: {}", fail.msg);
                        self.violations.push(Violation {
                            part: name.to_string(),
                            msg: fail.msg,
                            signature: fail.signature,
                            replay: path,
                        });
                    }
                }
            }
            self.parts.push(PartReport {
                name: name.to_string(),
                cases: 1,
                stats: st,
                exhaustive: false,
                rule: rule.to_string(),
                wall_s: t0.elapsed().as_secs_f64(),
                extra: Map::new(),
            });
            return;
        }

        // ---- regression tier: saved explicit cases (shrunk failures of earlier findings and seeded
        // changes) are re-executed first; they bypass the generator
        let mut regress_stats = Stats::default();
        let mut regress_n = 0u64;
        for (path, case_v) in load_regress(self.id, name) {
            let case: C = match serde_json::from_value(case_v.clone()) {
                Ok(c) => c,
                Err(e) => infra(&format!("regress case {path} does not deserialise: {e}")),
            };
            regress_n += 1;
            if let Err(fail) = run_case(&f, &case, &mut regress_stats) {
                if self.is_known(&fail.signature) {
                    regress_stats.known(&fail.signature);
                    continue;
                }
                println!("part {name} (saved case {path}): {}", fail.msg);
                self.violations.push(Violation {
                    part: name.to_string(),
                    msg: fail.msg,
                    signature: fail.signature,
                    replay: path,
                });
            }
        }
        // ---- generation mode
        let workers = self.workers.max(1);
        let per = (total_cases + workers as u64 - 1) / workers as u64;
        let stop = AtomicBool::new(false);
        let cases_run = AtomicU64::new(0);
        let merged: Mutex<Stats> = Mutex::new(Stats::default());
        let found: Mutex<Vec<(C, Fail, bool)>> = Mutex::new(vec![]);
        let known_sigs: Vec<String> = self.known.iter().map(|k| k.signature.clone()).collect();
        let id = self.id;
        let seed = self.seed;
        let part_hash = hash_of(&(id, name));
        let watchdog = self.watchdog_secs;
        let slow_ms: Option<u64> = std::env::var("VERIF_SLOW_MS").ok().and_then(|v| v.parse().ok());
        let (max_shrink_ms, max_shrink_iters) = (self.max_shrink_ms, self.max_shrink_iters);
        let running: Vec<Mutex<Option<(Instant, String)>>> = (0..workers).map(|_| Mutex::new(None)).collect();
        let finished = std::sync::atomic::AtomicUsize::new(0);
        std::thread::scope(|scope| {
            if let Some(secs) = watchdog {
                let running = &running;
                let finished = &finished;
                let part_name = name.to_string();
                scope.spawn(move || {
                    while finished.load(Ordering::Relaxed) < workers {
                        std::thread::sleep(std::time::Duration::from_millis(500));
                        for slot in running.iter() {
                            let expired = match &*slot.lock().unwrap() {
                                Some((t0, case)) if t0.elapsed().as_secs() >= secs => Some(case.clone()),
                                _ => None,
                            };
                            if let Some(case) = expired {
                                watchdog_expired(id, &part_name, &case, secs);
                            }
                        }
                    }
                });
            }
            for w in 0..workers {
                let stop = &stop;
                let cases_run = &cases_run;
                let merged = &merged;
                let found = &found;
                let f = &f;
                let strategy = &strategy;
                let known_sigs = &known_sigs;
                let part_name = name.to_string();
                let my_slot = &running[w];
                let finished = &finished;
                std::thread::Builder::new()
                    .stack_size(64 << 20)
                    .spawn_scoped(scope, move || {
                        CURRENT_PART.with(|c| *c.borrow_mut() = (id.to_string(), part_name.clone()));
                        let mut seed_bytes = [0u8; 32];
                        seed_bytes[..8].copy_from_slice(&seed.to_le_bytes());
                        seed_bytes[8..16].copy_from_slice(&(w as u64).to_le_bytes());
                        seed_bytes[16..24].copy_from_slice(&part_hash.to_le_bytes());
                        let rng = TestRng::from_seed(RngAlgorithm::ChaCha, &seed_bytes);
                        let config = Config {
                            cases: per as u32,
                            failure_persistence: None,
                            max_shrink_iters,
                            max_shrink_time: max_shrink_ms,
                            max_global_rejects: 1 << 30,
                            max_local_rejects: 1 << 30,
                            verbose: 0,
                            ..Config::default()
                        };
                        let mut runner = TestRunner::new_with_rng(config, rng);
                        let st = RefCell::new(Stats::default());
                        let last_fail: RefCell<Option<Fail>> = RefCell::new(None);
                        let result = runner.run(strategy, |case| {
                            if stop.load(Ordering::Relaxed) && !st.borrow().frozen {
                                return Ok(());
                            }
                            if !st.borrow().frozen {
                                cases_run.fetch_add(1, Ordering::Relaxed);
                            }
                            let mut s = st.borrow_mut();
                            if watchdog.is_some() {
                                *my_slot.lock().unwrap() = Some((Instant::now(), serde_json::to_string(&case).unwrap_or_default()));
                            }
                            let t_case = Instant::now();
                            let outcome = run_case(f, &case, &mut s);
                            if let Some(limit) = slow_ms {
                                if t_case.elapsed().as_millis() as u64 > limit {
                                    eprintln!("slow case ({} ms) in part {part_name}: {}", t_case.elapsed().as_millis(), serde_json::to_string(&case).unwrap_or_default());
                                }
                            }
                            if watchdog.is_some() {
                                *my_slot.lock().unwrap() = None;
                            }
                            match outcome {
                                Ok(()) => Ok(()),
                                Err(fail) => {
                                    if known_sigs.iter().any(|k| *k == fail.signature) {
                                        s.known(&fail.signature);
                                        return Ok(());
                                    }
                                    // stop counting: the closure re-runs during shrinking
                                    s.frozen = true;
                                    let msg = fail.msg.clone();
                                    *last_fail.borrow_mut() = Some(fail);
                                    Err(TestCaseError::fail(msg))
                                }
                            }
                        });
                        match result {
                            Ok(()) => {}
                            Err(TestError::Fail(_, case)) => {
                                stop.store(true, Ordering::Relaxed);
                                // re-run the minimal case to get its own message/observations
                                let mut tmp = Stats::default();
                                let fail = match run_case(f, &case, &mut tmp) {
                                    Err(fl) => fl,
                                    Ok(()) => last_fail.borrow_mut().take().unwrap_or_else(|| {
                                        Fail::new("unreproducible", "failure did not reproduce on the shrunk case".into())
                                    }),
                                };
                                found.lock().unwrap().push((case, fail, true));
                            }
                            Err(TestError::Abort(reason)) => {
                                eprintln!("proptest aborted in part {part_name}: {reason}");
                            }
                        }
                        let mut s = st.into_inner();
                        s.frozen = false;
                        merged.lock().unwrap().merge(s);
                        finished.fetch_add(1, Ordering::Relaxed);
                    })
                    .unwrap();
            }
        });
        let mut stats = merged.into_inner().unwrap();
        stats.merge(regress_stats);
        for (sig, n) in &stats.known {
            let what = self
                .known
                .iter()
                .find(|k| &k.signature == sig)
                .map(|k| k.what.clone())
                .unwrap_or_default();
            println!("KNOWN-FINDING: property={} {} [{} x{}]", self.id, what, sig, n);
        }
        let mut found = found.into_inner().unwrap();
        // report one violation per distinct signature (smallest case text first)
        found.sort_by_key(|(c, _, _)| serde_json::to_string(c).map(|s| s.len()).unwrap_or(0));
        let mut seen = HashSet::new();
        for (case, fail, shrunk) in found {
            if !seen.insert(fail.signature.clone()) {
                continue;
            }
            let case_v = fail.explicit.clone().unwrap_or_else(|| serde_json::to_value(&case).unwrap());
            let path = write_replay_file(self.id, name, &case_v, &fail.msg, &fail.signature, &fail.observed, shrunk);
            println!("part {name}: {}", fail.msg);
            self.violations.push(Violation {
                part: name.to_string(),
                msg: fail.msg,
                signature: fail.signature,
                replay: path,
            });
        }
        let mut extra = Map::new();
        extra.insert("saved_regression_cases".into(), json!(regress_n));
        self.parts.push(PartReport {
            name: name.to_string(),
            cases: cases_run.load(Ordering::Relaxed),
            stats,
            exhaustive: false,
            rule: rule.to_string(),
            wall_s: t0.elapsed().as_secs_f64(),
            extra,
        });
    }

    /// Complete enumeration of a finite space: `items` is split over the workers by index.
    pub fn exhaustive_part<C, F>(&mut self, name: &str, rule: &str, items: Vec<C>, f: F)
    where
        C: Serialize + DeserializeOwned + std::fmt::Debug + Clone + Send + Sync + 'static,
        F: Fn(&C, &mut Stats) -> Result<(), Fail> + Sync,
    {
        if !self.part_enabled(name) {
            return;
        }
        let t0 = Instant::now();
        CURRENT_PART.with(|c| *c.borrow_mut() = (self.id.to_string(), name.to_string()));
        let items: Vec<C> = if let Some((_, case_v)) = self.replay.clone() {
            match serde_json::from_value(case_v) {
                Ok(c) => vec![c],
                Err(e) => infra(&format!("replay case does not deserialise for part {name}: {e}")),
            }
        } else {
            items
        };
        let workers = self.workers.max(1).min(items.len().max(1));
        let merged: Mutex<Stats> = Mutex::new(Stats::default());
        let found: Mutex<Vec<(C, Fail)>> = Mutex::new(vec![]);
        let known_sigs: Vec<String> = self.known.iter().map(|k| k.signature.clone()).collect();
        let id = self.id;
        let next = AtomicU64::new(0);
        std::thread::scope(|scope| {
            for _ in 0..workers {
                let merged = &merged;
                let found = &found;
                let items = &items;
                let f = &f;
                let next = &next;
                let known_sigs = &known_sigs;
                let part_name = name.to_string();
                std::thread::Builder::new()
                    .stack_size(64 << 20)
                    .spawn_scoped(scope, move || {
                        CURRENT_PART.with(|c| *c.borrow_mut() = (id.to_string(), part_name.clone()));
                        let mut st = Stats::default();
                        loop {
                            let i = next.fetch_add(1, Ordering::Relaxed) as usize;
                            if i >= items.len() {
                                break;
                            }
                            if let Err(fail) = run_case(f, &items[i], &mut st) {
                                if known_sigs.iter().any(|k| *k == fail.signature) {
                                    st.known(&fail.signature);
                                    continue;
                                }
                                let mut fv = found.lock().unwrap();
                                if fv.len() < 16 {
                                    fv.push((items[i].clone(), fail));
                                }
                            }
                        }
                        merged.lock().unwrap().merge(st);
                    })
                    .unwrap();
            }
        });
        let stats = merged.into_inner().unwrap();
        for (sig, n) in &stats.known {
            let what = self
                .known
                .iter()
                .find(|k| &k.signature == sig)
                .map(|k| k.what.clone())
                .unwrap_or_default();
            println!("KNOWN-FINDING: property={} {} [{} x{}]", self.id, what, sig, n);
        }
        let mut seen = HashSet::new();
        for (case, fail) in found.into_inner().unwrap() {
            if !seen.insert(fail.signature.clone()) {
                continue;
            }
            let case_v = fail.explicit.clone().unwrap_or_else(|| serde_json::to_value(&case).unwrap());
            let path = write_replay_file(self.id, name, &case_v, &fail.msg, &fail.signature, &fail.observed, true);
            println!("part {name}: {}", fail.msg);
            self.violations.push(Violation {
                part: name.to_string(),
                msg: fail.msg,
                signature: fail.signature,
                replay: path,
            });
        }
        let n = items.len() as u64;
        self.parts.push(PartReport {
            name: name.to_string(),
            cases: n,
            stats,
            exhaustive: self.replay.is_none(),
            rule: rule.to_string(),
            wall_s: t0.elapsed().as_secs_f64(),
            extra: Map::new(),
        });
    }

    pub fn part_extra(&mut self, key: &str, v: Value) {
        if let Some(p) = self.parts.last_mut() {
            p.extra.insert(key.to_string(), v);
        }
    }

    /// Write the evidence file, print the verdict lines, return the exit code.
    pub fn finish(self, rule: &str) -> i32 {
        let wall = self.started.elapsed().as_secs_f64();
        let mut evaluations = 0u64;
        let mut nontrivial = 0u64;
        let mut classes: BTreeMap<String, u64> = BTreeMap::new();
        let mut samples: Vec<Value> = vec![];
        let mut parts_v: Vec<Value> = vec![];
        let mut known_met: BTreeMap<String, u64> = BTreeMap::new();
        let mut discards = 0u64;
        let mut all_exhaustive = !self.parts.is_empty();
        for p in &self.parts {
            evaluations += p.stats.evaluations;
            nontrivial += p.stats.nontrivial.len() as u64;
            discards += p.stats.discards;
            all_exhaustive &= p.exhaustive;
            for (k, v) in &p.stats.classes {
                *classes.entry(format!("{}/{}", p.name, k)).or_insert(0) += v;
            }
            for (k, v) in &p.stats.known {
                *known_met.entry(k.clone()).or_insert(0) += v;
            }
            for s in p.stats.nontrivial_samples.iter().take(3) {
                samples.push(json!({"part": p.name, "nontrivial": true, "case": s}));
            }
            for s in p.stats.samples.iter().take(2) {
                samples.push(json!({"part": p.name, "case": s}));
            }
            let mut pv = json!({
                "part": p.name,
                "generated_cases": p.cases,
                "evaluations": p.stats.evaluations,
                "distinct_nontrivial": p.stats.nontrivial.len(),
                "exhaustive": p.exhaustive,
                "rule": p.rule,
                "wall_s": (p.wall_s * 1000.0).round() / 1000.0,
                "discards": p.stats.discards,
                "distinct_nontrivial_is_lower_bound": p.stats.nontrivial_capped,
            });
            for (k, v) in &p.extra {
                pv[k] = v.clone();
            }
            parts_v.push(pv);
        }
        if self.replay.is_none() && self.only_parts.is_empty() {
            let mut coverage = json!({
                "evaluations": evaluations,
                "distinct_nontrivial": nontrivial,
                "rule": rule,
                "samples": samples,
                "exhaustive": all_exhaustive,
                "classes": classes,
                "parts": parts_v,
                "discards": discards,
                "known_findings_met": known_met,
                "profile": profile_name(),
                "workers": self.workers,
            });
            for (k, v) in &self.extra {
                coverage[k] = v.clone();
            }
            let ev = json!({
                "property_id": self.id,
                "tier": self.tier.name(),
                "seed": self.seed as i64,
                "level": "exploration",
                "coverage": coverage,
                "assumptions": self.assumptions,
                "wall_s": (wall * 1000.0).round() / 1000.0,
                "violations": self.violations.len(),
            });
            let dir = format!("{}/evidence", verif_root());
            let _ = std::fs::create_dir_all(&dir);
            let path = std::env::var("VERIF_EVIDENCE_OUT").unwrap_or_else(|_| format!("{dir}/{}.json", self.id));
            if let Err(e) = std::fs::write(&path, serde_json::to_string_pretty(&ev).unwrap()) {
                infra(&format!("cannot write evidence {path}: {e}"));
            }
        } else if let Ok(path) = std::env::var("VERIF_SUB_OUT") {
            // sub-process mode: hand the part reports to the parent
            let sub = json!({
                "evaluations": evaluations,
                "distinct_nontrivial": nontrivial,
                "classes": classes,
                "parts": parts_v,
                "samples": samples,
                "profile": profile_name(),
                "violations": self.violations.iter().map(|v| json!({"part": v.part, "msg": v.msg, "replay": v.replay})).collect::<Vec<_>>(),
            });
            let _ = std::fs::write(&path, serde_json::to_string(&sub).unwrap());
        }
        println!(
            "{} {} seed={} profile={} evaluations={} distinct_nontrivial={} wall={:.1}s violations={}",
            self.id,
            self.tier.name(),
            self.seed,
            profile_name(),
            evaluations,
            nontrivial,
            wall,
            self.violations.len()
        );
        for v in &self.violations {
            println!("  [{}] {} (signature {})", v.part, v.msg, v.signature);
            println!("VIOLATION property={} replay={}", self.id, v.replay);
        }
        if self.violations.is_empty() {
            0
        } else {
            1
        }
    }
}

/// A case exceeded its wall-clock budget while other workers were busy. It is re-run alone in a
/// fresh process with the same budget: only if it exceeds the budget there too is it a violation
/// (termination); otherwise the run is inconclusive (exit 2), never a verdict.
fn watchdog_expired(id: &str, part: &str, case_json: &str, secs: u64) -> ! {
    use std::io::Write;
    let case: Value = serde_json::from_str(case_json).unwrap_or(Value::Null);
    let path = write_replay_file(id, part, &case, &format!("case exceeded {secs} s under load; re-run alone"), "slow_or_stuck", &Value::Null, false);
    println!("watchdog: a case of part {part} exceeded {secs} s; re-running it alone ({path})");
    let _ = std::io::stdout().flush();
    let exe = std::env::current_exe().unwrap_or_else(|_| infra("current_exe"));
    let child = std::process::Command::new(exe)
        .args([id, "--replay", &path])
        .env("VERIF_WATCHDOG_CONFIRM", "1")
        .status();
    match child {
        Ok(s) if s.code() == Some(1) => {
            // the child printed the VIOLATION line
            std::process::exit(1);
        }
        _ => {
            println!("INCONCLUSIVE: the case finished when run alone (slow under load, not stuck)");
            std::process::exit(2);
        }
    }
}

/// Run another build of this binary (the `fast` profile) on some parts and merge its report.
pub fn run_sub_process(run: &mut Run, bin: &str, parts: &[&str]) {
    if run.replay.is_some() {
        return;
    }
    let out = format!("{}/target/sub-{}-{}.json", verif_root(), run.id, std::process::id());
    let _ = std::fs::create_dir_all(format!("{}/target", verif_root()));
    let status = std::process::Command::new(bin)
        .args([run.id, "--tier", run.tier.name(), "--parts", &parts.join(",")])
        .env("VERIF_SUB_OUT", &out)
        .env("VERIF_SEED", run.seed.to_string())
        .status();
    let code = match status {
        Ok(s) => s.code().unwrap_or(2),
        Err(e) => infra(&format!("cannot run {bin}: {e}")),
    };
    if code == 2 {
        if !run.violations.is_empty() {
            // the verdict already reached in this process stands; the other profile adds nothing
            println!("note: the {} sub-process was inconclusive; reporting the violations found in this process", parts.join(","));
            run.assume("fast-profile sub-process inconclusive in this run (violations of this process reported)");
            let _ = std::fs::remove_file(&out);
            return;
        }
        infra("sub-process run was inconclusive");
    }
    let v: Value = std::fs::read_to_string(&out)
        .ok()
        .and_then(|t| serde_json::from_str(&t).ok())
        .unwrap_or_else(|| infra("sub-process wrote no report"));
    let _ = std::fs::remove_file(&out);
    for viol in v["violations"].as_array().cloned().unwrap_or_default() {
        run.violations.push(Violation {
            part: format!("{}@{}", viol["part"].as_str().unwrap_or(""), v["profile"].as_str().unwrap_or("")),
            msg: viol["msg"].as_str().unwrap_or("").to_string(),
            signature: "sub-process".into(),
            replay: viol["replay"].as_str().unwrap_or("").to_string(),
        });
    }
    let key = format!("profile_{}", v["profile"].as_str().unwrap_or("other"));
    run.extra.insert(key, v);
}

/// Coverage-guided campaign with a cargo-fuzz target whose oracle is inside the target. Builds the
/// target (nightly), runs `jobs` libFuzzer processes on fresh corpus directories seeded with `seeds`,
/// and returns (total executions, corpus files, crashing inputs). None if the tooling is unavailable.
pub fn run_fuzz(target: &str, seed: u64, runs_per_job: u64, jobs: usize, max_len: usize, seeds: &[Vec<u8>]) -> Result<(u64, usize, Vec<Vec<u8>>), String> {
    let tgt = std::env::var("VERIF_TARGET").unwrap_or_else(|_| format!("{}/target", verif_root()));
    let fuzz_dir = format!("{}/fuzz", verif_root());
    let _ = std::fs::copy(format!("{}/harness/Cargo.lock", verif_root()), format!("{fuzz_dir}/Cargo.lock"));
    let build = std::process::Command::new("cargo")
        .args(["+nightly", "fuzz", "build", "--fuzz-dir", &fuzz_dir, "--target-dir", &format!("{tgt}/fuzz"), target])
        .env("CARGO_NET_OFFLINE", "true")
        .output()
        .map_err(|e| format!("cargo fuzz: {e}"))?;
    if !build.status.success() {
        let err = String::from_utf8_lossy(&build.stderr);
        return Err(format!("cargo +nightly fuzz build failed: {}", err.lines().rev().take(6).collect::<Vec<_>>().join(" | ")));
    }
    let bin = format!("{tgt}/fuzz/x86_64-unknown-linux-gnu/release/{target}");
    let work = format!("{tgt}/fuzz-work/{target}-{}", std::process::id());
    let _ = std::fs::remove_dir_all(&work);
    let mut children = vec![];
    for j in 0..jobs {
        let corpus = format!("{work}/corpus{j}");
        let arts = format!("{work}/artifacts{j}/");
        std::fs::create_dir_all(&corpus).map_err(|e| e.to_string())?;
        std::fs::create_dir_all(&arts).map_err(|e| e.to_string())?;
        // half of the jobs start from the golden seeds, the others from an empty corpus
        if j % 2 == 0 {
            for (i, s) in seeds.iter().enumerate() {
                let _ = std::fs::write(format!("{corpus}/seed{i}"), s);
            }
        }
        let child = std::process::Command::new(&bin)
            .args([
                corpus.clone(),
                format!("-seed={}", seed.wrapping_mul(1000).wrapping_add(j as u64 + 1).max(1) & 0x7fff_ffff),
                format!("-runs={runs_per_job}"),
                "-len_control=0".to_string(),
                format!("-max_len={max_len}"),
                format!("-artifact_prefix={arts}"),
                "-print_final_stats=1".to_string(),
                // whichever comes first: the run count or ten minutes per job
                "-max_total_time=600".to_string(),
            ])
            .stdout(std::process::Stdio::null())
            .stderr(std::process::Stdio::piped())
            .spawn()
            .map_err(|e| format!("cannot run {bin}: {e}"))?;
        children.push((child, corpus, arts));
    }
    let mut execs = 0u64;
    let mut corpus_files = 0usize;
    let mut crashes: Vec<Vec<u8>> = vec![];
    for (child, corpus, arts) in children {
        let out = child.wait_with_output().map_err(|e| e.to_string())?;
        let err = String::from_utf8_lossy(&out.stderr);
        for l in err.lines() {
            if let Some(v) = l.strip_prefix("stat::number_of_executed_units:") {
                execs += v.trim().parse::<u64>().unwrap_or(0);
            }
            if l.contains("ORACLE FAILURE") {
                println!("fuzz {target}: {l}");
            }
        }
        corpus_files += std::fs::read_dir(&corpus).map(|d| d.count()).unwrap_or(0);
        if let Ok(rd) = std::fs::read_dir(&arts) {
            for f in rd.flatten() {
                if let Ok(bytes) = std::fs::read(f.path()) {
                    crashes.push(bytes);
                }
            }
        }
    }
    let _ = std::fs::remove_dir_all(&work);
    Ok((execs, corpus_files, crashes))
}

fn run_case<C: Serialize, F: Fn(&C, &mut Stats) -> Result<(), Fail>>(f: &F, case: &C, st: &mut Stats) -> Result<(), Fail> {
    fn ser<C: Serialize>(p: *const ()) -> Value {
        // SAFETY: only called from the panic hook on the thread that set the pointer, while the case is alive
        let c: &C = unsafe { &*(p as *const C) };
        serde_json::to_value(c).unwrap_or(Value::Null)
    }
    CURRENT.with(|c| c.set(Some((case as *const C as *const (), ser::<C> as fn(*const ()) -> Value))));
    TAPE_OVERRUNS.with(|c| c.set(0));
    let r = catch_unwind(AssertUnwindSafe(|| f(case, st)));
    CURRENT.with(|c| c.set(None));
    let over = TAPE_OVERRUNS.with(|c| c.get());
    if over > 8 {
        st.class("case_whose_choice_tape_ran_out(more_than_8_choices_defaulted)");
    }
    match r {
        Ok(r) => r,
        Err(_) => {
            let msg = LAST_PANIC
                .with(|l| l.borrow_mut().take())
                .unwrap_or_else(|| "panic".to_string());
            Err(Fail::new(&format!("panic:{}", panic_signature(&msg)), format!("panic: {msg}")))
        }
    }
}

// ------------------------------------------------------------------------------------------------
// choice tape: all structure is derived from a generated Vec<u16>, so proptest shrinks the whole
// construction as one value (shorter tape, smaller numbers = earlier alternatives).

thread_local! {
    static TAPE_OVERRUNS: std::cell::Cell<u64> = const { std::cell::Cell::new(0) };
}

pub struct Tape<'a> {
    data: &'a [u16],
    pos: usize,
}

impl<'a> Tape<'a> {
    pub fn new(data: &'a [u16]) -> Tape<'a> {
        Tape { data, pos: 0 }
    }
    pub fn raw(&mut self) -> u16 {
        let v = match self.data.get(self.pos) {
            Some(v) => *v,
            None => {
                // reading past the end yields zeros (the "first alternative"): fine for shrinking, but a
                // generator whose tapes are too short degenerates silently - counted per case
                TAPE_OVERRUNS.with(|c| c.set(c.get() + 1));
                0
            }
        };
        self.pos += 1;
        v
    }
    /// monotone map of the next tape value onto 0..n
    pub fn pick(&mut self, n: usize) -> usize {
        if n <= 1 {
            // still consume, so that positions stay aligned when n varies
            self.raw();
            return 0;
        }
        ((self.raw() as u64 * n as u64) >> 16) as usize
    }
    pub fn chance(&mut self, num: u32, den: u32) -> bool {
        (self.raw() as u64 * den as u64) >> 16 >= (den - num) as u64
    }
    pub fn exhausted(&self) -> bool {
        self.pos >= self.data.len()
    }
    pub fn used(&self) -> usize {
        self.pos
    }
}

/// Choice tapes: a quarter of them have a length in `len` (small cases, and the range within which a
/// failing case can shrink), three quarters are two to four times as long as the upper end, so that
/// the builders rarely run out of choices (measured: with `len` alone 25-60 % of the cases of most
/// parts read past the end of their tape and fell back to "first alternative" for the rest).
pub fn tape(len: std::ops::Range<usize>) -> impl Strategy<Value = Vec<u16>> {
    let hi = len.end.max(len.start + 1);
    proptest::prop_oneof![
        1 => proptest::collection::vec(proptest::num::u16::ANY, len),
        3 => proptest::collection::vec(proptest::num::u16::ANY, 2 * hi..4 * hi),
    ]
}
