//! Conversions between the reference model and the engine's types (never through the engine's FEN reader).
use crate::chess::board::Board;
use crate::chess::game::{CastleRights, Game};
use crate::chess::moves::{Move, MoveList};
use crate::chess::piece::{Piece, PieceKind, PromotionPieceKind};
use crate::chess::player::{ByPlayer, Player};
use crate::chess::square::Square;
use crate::refchess::{Kind, Mv, Pc, Pos, BK, BQ, WK, WQ};

pub fn kind_to_engine(k: Kind) -> PieceKind {
    match k {
        Kind::P => PieceKind::Pawn,
        Kind::N => PieceKind::Knight,
        Kind::B => PieceKind::Bishop,
        Kind::R => PieceKind::Rook,
        Kind::Q => PieceKind::Queen,
        Kind::K => PieceKind::King,
    }
}
pub fn kind_from_engine(k: PieceKind) -> Kind {
    match k {
        PieceKind::Pawn => Kind::P,
        PieceKind::Knight => Kind::N,
        PieceKind::Bishop => Kind::B,
        PieceKind::Rook => Kind::R,
        PieceKind::Queen => Kind::Q,
        PieceKind::King => Kind::K,
    }
}
pub fn player(white: bool) -> Player {
    if white {
        Player::White
    } else {
        Player::Black
    }
}
pub fn esq(s: u8) -> Square {
    Square::from_index(s)
}

/// Build the engine's `Game` for a reference position without using the engine's FEN reader.
pub fn to_game(p: &Pos) -> Game {
    let mut squares: [Option<Piece>; 64] = [None; 64];
    for s in 0..64usize {
        if let Some(pc) = p.board[s] {
            squares[s] = Some(Piece::new(player(pc.white), kind_to_engine(pc.kind)));
        }
    }
    let board = Board::try_from(squares).unwrap();
    let rights = ByPlayer::new(
        CastleRights {
            king_side: p.castle[WK],
            queen_side: p.castle[WQ],
        },
        CastleRights {
            king_side: p.castle[BK],
            queen_side: p.castle[BQ],
        },
    );
    Game::from_state(
        board,
        player(p.white_to_move),
        rights,
        p.ep.map(esq),
        p.halfmove,
        p.plies(),
    )
}

/// Read the engine's position back through its per-square view.
pub fn from_game(g: &Game) -> Pos {
    let mut p = Pos::empty();
    for s in 0..64u8 {
        if let Some(pc) = g.board.piece_at(esq(s)) {
            p.board[s as usize] = Some(Pc::new(pc.player == Player::White, kind_from_engine(pc.kind)));
        }
    }
    p.white_to_move = g.player == Player::White;
    let [w, b] = g.castle_rights.inner();
    p.castle = [w.king_side, w.queen_side, b.king_side, b.queen_side];
    p.ep = g.en_passant_target.map(|s| s.idx());
    p.halfmove = g.halfmove_clock;
    p.fullmove = g.turn();
    p
}

pub fn promo_idx(p: Option<PromotionPieceKind>) -> u8 {
    match p {
        None => 0,
        Some(k) => kind_from_engine(k.piece()).idx() as u8,
    }
}

/// (from, to, promo) key of an engine move, comparable with `Mv::key`.
pub fn mkey(m: Move) -> (u8, u8, u8) {
    (m.src().idx(), m.dst().idx(), promo_idx(m.promotion()))
}

/// The engine move matching a reference move, if the engine generates it.
pub fn find_move(g: &Game, m: &Mv) -> Option<Move> {
    let ml: MoveList = g.moves();
    ml.iter().copied().find(|e| mkey(*e) == m.key())
}

pub fn move_uci(m: Move) -> String {
    format!("{m:?}")
}
