//! C16 Evaluation is colour-symmetric, bounded and a proper blend.
use super::common::*;
use crate::adapter::*;
use crate::engine::eval::{eval, PhasedEval};
use crate::framework::*;
use crate::gen::Mix;
use crate::refchess::{Kind, Pos};
use proptest::prelude::*;
use serde::{Deserialize, Serialize};
use serde_json::json;

pub const RULE: &str = "positions: all generator sources incl. the multi-queen / under-promotion themes (game phase up to 88) and walks from them; for each position P and its mirror twin M (ranks flipped, colours, side, rights and e.p. target swapped, built by the reference model): eval(P) == eval(M), no panic, eval is not a mate score, and with mg := eval with the phase counter forced to 24 and eg := forced to 0, min(mg,eg) <= eval(P) <= max(mg,eg). Every walk is also played on one engine Game (make_move) and the evaluation of each position reached by play is held to the same demands (band from a fresh copy, mirror twin built from scratch). Key collisions ('positions_whose_keys_agree_on_most_bits'): pairs of different legal positions constructed so that their keys agree on the upper 48 / lower 48 / upper 32 + lower 20 / ... bits (Gaussian elimination over the per-(man, square) key words, read off zobrist::hash) are evaluated one right after the other; each must get the value of its own mirror twin and lie in its own band. Long played histories ('long_played_histories'): games nested 1100-1500 plies deep and then taken back move by move on one engine Game; on the way back every sixteenth position is evaluated and held to the same demands. Blend triples: PhasedEval::new(mg,eg).for_phase(p) lies between mg and eg for mg,eg in [-20000,20000], p in 0..=88. Non-trivial position = phase above 24 or asymmetric pawn structure / king placement; distinct by identity.";

#[derive(Serialize, Deserialize, Clone, Debug)]
pub struct Triple {
    mg: i16,
    eg: i16,
    phase: i16,
}

fn phase_of(p: &Pos) -> i32 {
    let mut v = 0;
    for w in [true, false] {
        v += p.count(w, Kind::N) + p.count(w, Kind::B) + 2 * p.count(w, Kind::R) + 4 * p.count(w, Kind::Q);
    }
    v as i32
}

pub fn check_position(p: &Pos, st: &mut Stats) -> Result<(), Fail> {
    st.eval();
    let fen = p.to_fen();
    let ex = || explicit_fen(p);
    let phase = phase_of(p);
    let m = p.mirror();
    // asymmetric: the position is not its own mirror image up to file reflection (cheap proxy: pawn files / king files differ between colours)
    let asym = {
        let pf = |w: bool| -> Vec<u8> { (0..64u8).filter(|s| p.board[*s as usize] == Some(crate::refchess::Pc::new(w, Kind::P))).map(|s| if w { s } else { s ^ 56 }).collect() };
        pf(true) != pf(false) || p.king_sq(true).map(|k| k) != p.king_sq(false).map(|k| k ^ 56)
    };
    if phase > 24 {
        st.class("phase_above_24");
    }
    if phase > 24 || asym {
        st.nontrivial(&p.identity());
        if st.want_nontrivial_sample() {
            st.nontrivial_sample(json!({"fen": fen, "phase": phase}));
        }
    } else if st.want_sample() {
        st.sample(json!({"fen": fen, "phase": phase}));
    }
    let g = to_game(p);
    let gm = to_game(&m);
    let e = match catch(|| eval(&g)) {
        Ok(e) => e,
        Err(pm) => return Err(Fail::new(&format!("eval_panic:{}", panic_signature(&pm)), format!("eval panicked on {fen}: {pm}")).explicit(ex())),
    };
    let em = match catch(|| eval(&gm)) {
        Ok(e) => e,
        Err(pm) => return Err(Fail::new(&format!("eval_panic:{}", panic_signature(&pm)), format!("eval panicked on {} (mirror of {fen}): {pm}", m.to_fen())).explicit(ex())),
    };
    if e != em {
        return Err(Fail::new("eval_not_colour_symmetric", format!("eval({fen}) = {} but eval of its mirror {} = {}", e.0, m.to_fen(), em.0)).explicit(ex()));
    }
    if e.is_mate_in_moves().is_some() {
        return Err(Fail::new("eval_in_mate_range", format!("eval({fen}) = {} lies in the range reserved for mate scores", e.0)).explicit(ex()));
    }
    // blend: between the pure middlegame and the pure endgame assessment
    let mut g_mg = g.clone();
    g_mg.incremental_eval.phase_value = 24;
    let mut g_eg = g.clone();
    g_eg.incremental_eval.phase_value = 0;
    let (mg, eg) = match catch(|| (eval(&g_mg), eval(&g_eg))) {
        Ok(x) => x,
        Err(pm) => return Err(Fail::new(&format!("eval_panic:{}", panic_signature(&pm)), format!("eval panicked on {fen} with forced phase: {pm}")).explicit(ex())),
    };
    let (lo, hi) = (mg.0.min(eg.0), mg.0.max(eg.0));
    if e.0 < lo || e.0 > hi {
        return Err(Fail::new("eval_outside_blend", format!("eval({fen}) = {} is outside [middlegame {}, endgame {}] (phase {phase})", e.0, mg.0, eg.0)).explicit(ex()));
    }
    Ok(())
}

/// The evaluation of a game object reached by play must satisfy the same demands; the mirror twin
/// and the pure middlegame / endgame values come from positions set up from scratch.
fn check_played(g: &crate::chess::game::Game, p: &Pos, st: &mut Stats) -> Result<(), Fail> {
    st.eval();
    st.class("position_reached_by_play");
    let fen = p.to_fen();
    let ex = || explicit_fen(p);
    let e = match catch(|| eval(g)) {
        Ok(e) => e,
        Err(pm) => return Err(Fail::new(&format!("eval_panic:{}", panic_signature(&pm)), format!("eval panicked on {fen} reached by play: {pm}")).explicit(ex())),
    };
    let fresh = to_game(p);
    let mut g_mg = fresh.clone();
    g_mg.incremental_eval.phase_value = 24;
    let mut g_eg = fresh.clone();
    g_eg.incremental_eval.phase_value = 0;
    let (mg, eg) = (eval(&g_mg), eval(&g_eg));
    if e.0 < mg.0.min(eg.0) || e.0 > mg.0.max(eg.0) {
        return Err(Fail::new("eval_outside_blend:reached_by_play", format!("eval of {fen} reached by play = {} is outside [middlegame {}, endgame {}]", e.0, mg.0, eg.0)).explicit(ex()));
    }
    let em = eval(&to_game(&p.mirror()));
    if e != em {
        return Err(Fail::new("eval_not_colour_symmetric:reached_by_play", format!("eval of {fen} reached by play = {} but its mirror twin evaluates to {}", e.0, em.0)).explicit(ex()));
    }
    Ok(())
}

#[derive(Serialize, Deserialize, Clone, Debug)]
pub enum PairCase {
    Tape(Vec<u16>),
    /// two FENs evaluated one right after the other
    Explicit { first: String, second: String },
}

/// Two different legal positions whose keys agree on most bits (see collide.rs) are evaluated one
/// right after the other: each must still get its own value (= the value of its mirror twin, inside
/// its own middlegame / endgame band).
fn check_pair(c: &PairCase, st: &mut Stats) -> Result<(), Fail> {
    let (a, b, label): (Pos, Pos, &'static str) = match c {
        PairCase::Tape(data) => {
            let mut t = Tape::new(data);
            let mi = t.pick(super::collide::MASKS.len());
            let mut base = super::collide::kings_base(&mut t);
            // a few men common to both positions
            for _ in 0..t.pick(4) {
                let s = t.pick(64);
                let pc = crate::refchess::Pc::new(t.pick(2) == 0, [Kind::Q, Kind::R, Kind::B, Kind::N][t.pick(4)]);
                if base.board[s].is_none() {
                    base.board[s] = Some(pc);
                    if base.validate().is_err() || base.attacked(base.king_sq(base.white_to_move).unwrap(), !base.white_to_move) {
                        base.board[s] = None;
                    }
                }
            }
            let Some(pair) = super::collide::colliding_pair(&mut t, &base, None, mi) else {
                st.discard();
                return Ok(());
            };
            st.class_n("men_by_which_the_two_positions_differ", pair.differing as u64);
            if t.pick(2) == 0 {
                (pair.a, pair.b, pair.mask_name)
            } else {
                (pair.b, pair.a, pair.mask_name)
            }
        }
        PairCase::Explicit { first, second } => match (Pos::from_fen(first), Pos::from_fen(second)) {
            (Ok(a), Ok(b)) if a.validate().is_ok() && b.validate().is_ok() => (a, b, "explicit"),
            _ => return Ok(()),
        },
    };
    st.eval();
    st.class(&format!("keys_agree_on:{label}"));
    st.nontrivial(&(a.identity(), b.identity()));
    let ex = || json!({"Explicit": {"first": a.to_fen(), "second": b.to_fen()}});
    if st.want_nontrivial_sample() {
        let (ka, kb) = (to_game(&a).zobrist.0, to_game(&b).zobrist.0);
        st.nontrivial_sample(json!({"first": a.to_fen(), "second": b.to_fen(), "key_first": format!("{ka:#018x}"), "key_second": format!("{kb:#018x}"), "keys_agree_on": label}));
    }
    let (ga, gb, gam, gbm) = (to_game(&a), to_game(&b), to_game(&a.mirror()), to_game(&b.mirror()));
    let r = catch(|| {
        let ea = eval(&ga);
        let eb = eval(&gb); // nothing evaluated in between
        let ebm = eval(&gbm);
        let eam = eval(&gam);
        (ea, eb, eam, ebm)
    });
    let (ea, eb, eam, ebm) = r.map_err(|pm| Fail::new(&format!("eval_panic:{}", panic_signature(&pm)), format!("eval panicked on {} / {}: {pm}", a.to_fen(), b.to_fen())).explicit(ex()))?;
    if eb != ebm {
        return Err(Fail::new("eval_depends_on_what_was_evaluated_before", format!("eval({}) = {} when evaluated right after {} (eval {}), but its mirror twin evaluates to {}", b.to_fen(), eb.0, a.to_fen(), ea.0, ebm.0)).explicit(ex()));
    }
    if ea != eam {
        return Err(Fail::new("eval_depends_on_what_was_evaluated_before", format!("eval({}) = {} but its mirror twin, evaluated after {}, gives {}", a.to_fen(), ea.0, b.to_fen(), eam.0)).explicit(ex()));
    }
    check_position(&a, st).map_err(|f| f.explicit(ex()))?;
    check_position(&b, st).map_err(|f| f.explicit(ex()))
}

/// Long games (1100-1500 plies deep, then taken back move by move) on one engine Game: the evaluation
/// of the positions met on the way back - long after they were first passed - is held to the demands.
struct LongObs;

impl super::hist::Observer for LongObs {
    fn after_op(&mut self, g: &crate::chess::game::Game, pos: &Pos, op: &super::hist::Op, stack: &[Pos], st: &mut Stats) -> Result<(), Fail> {
        if matches!(op, super::hist::Op::Undo) && stack.len() % 16 == 3 || stack.len() % 97 == 0 {
            check_played(g, pos, st)?;
        }
        Ok(())
    }
}

pub fn run(run: &mut Run) -> &'static str {
    let cases = run.tier.pick(160, 3_000);
    run.proptest_part("long_played_histories", RULE, super::hist::hist_case(400..1500), cases, |case: &super::hist::HistCase, st: &mut Stats| {
        let mut obs = LongObs;
        if let Some((feat, root, ops)) = super::hist::interpret(case, &super::hist::Config::long(), st, &mut obs)? {
            if feat.max_depth >= 257 {
                st.class("taken_back_from_a_depth_of_257_plies_or_more");
                st.nontrivial(&(root, ops.len(), crate::framework::hash_of(&ops)));
            }
        }
        Ok(())
    });
    let cases = run.tier.pick(20_000, 400_000);
    run.proptest_part("positions_whose_keys_agree_on_most_bits", RULE, tape(80..200).prop_map(PairCase::Tape), cases, check_pair);
    let cases = run.tier.pick(800_000, 6_000_000);
    run.proptest_part("positions", RULE, pos_case(4..160), cases, |c: &PosCase, st: &mut Stats| {
        // alternate between the general mix and the heavy-material mix
        let mix = match c {
            PosCase::Tape(t) if t.last().map_or(false, |x| x % 2 == 0) => Mix::Tactical,
            _ => Mix::General,
        };
        let ps = c.positions(mix, 24, st);
        // the same walk is also *played* on one engine Game (make_move), so that the evaluation of a
        // position reached by play - with its incrementally maintained phase and accumulators - is
        // held to the same three demands as a position set up directly
        let mut played: Option<crate::chess::game::Game> = None;
        for (i, gp) in ps.iter().enumerate() {
            st.class(&format!("src:{}", gp.src));
            check_position(&gp.pos, st)?;
            // right afterwards, on the same thread: the look-alike with the colours exchanged in place
            // (same occupied squares, same pawn squares, other owners) under the same demands. Whatever
            // the evaluator remembers under a description that does not tell the two apart answers for
            // the wrong one now.
            if i % 3 == 0 {
                let mut q = gp.pos.clone();
                for sq in 0..64 {
                    if let Some(pc) = q.board[sq] {
                        q.board[sq] = Some(crate::refchess::Pc::new(!pc.white, pc.kind));
                    }
                }
                q.white_to_move = !q.white_to_move;
                q.castle = [false; 4];
                q.ep = None;
                if q.validate().is_ok() {
                    st.class("look_alike_with_colours_exchanged_in_place");
                    check_position(&q, st).map_err(|mut f| {
                        f.msg = format!("(evaluated right after {}) {}", gp.pos.to_fen(), f.msg);
                        f.explicit(explicit_fen(&gp.pos))
                    })?;
                }
            }
            if i == 0 {
                played = Some(to_game(&gp.pos));
            } else if let Some(g) = played.as_mut() {
                let prev = &ps[i - 1].pos;
                let mv = prev.legal_moves().into_iter().find(|m| prev.make(m) == gp.pos);
                match mv.and_then(|m| find_move(g, &m)) {
                    Some(em) => {
                        g.make_move(em);
                        check_played(g, &gp.pos, st)?;
                    }
                    None => played = None,
                }
            }
        }
        Ok(())
    });
    let cases = run.tier.pick(10_000_000, 200_000_000);
    let strat = (-20_000i16..=20_000, -20_000i16..=20_000, 0i16..=88).prop_map(|(mg, eg, phase)| Triple { mg, eg, phase });
    run.proptest_part("blend", RULE, strat, cases, |t: &Triple, st: &mut Stats| {
        st.eval();
        if t.phase > 24 {
            st.class("phase_above_24");
        }
        st.nontrivial(&(t.mg, t.eg, t.phase));
        if st.want_nontrivial_sample() {
            st.nontrivial_sample(json!({"mg": t.mg, "eg": t.eg, "phase": t.phase}));
        }
        let pe = PhasedEval::new(t.mg, t.eg);
        if pe.midgame().0 != t.mg || pe.endgame().0 != t.eg {
            return Err(Fail::new("phased_eval_packing", format!("PhasedEval::new({}, {}) unpacks to ({}, {})", t.mg, t.eg, pe.midgame().0, pe.endgame().0)));
        }
        let v = match catch(|| pe.for_phase(t.phase)) {
            Ok(v) => v.0,
            Err(pm) => return Err(Fail::new(&format!("blend_panic:{}", panic_signature(&pm)), format!("for_phase panicked for {t:?}: {pm}"))),
        };
        if v < t.mg.min(t.eg) || v > t.mg.max(t.eg) {
            return Err(Fail::new("blend_outside", format!("PhasedEval::new({}, {}).for_phase({}) = {v} is not between its components", t.mg, t.eg, t.phase)));
        }
        Ok(())
    });
    // thorough: coverage-guided fuzzing of the walk tape (libFuzzer target `positions`: the C16, C18 and
    // C20 position oracles inside); crashing tapes are judged here by this property's oracle
    let crashes: Vec<PosCase> = super::fuzzglue::campaign(run, "positions", 250_000, 12, 400).into_iter().map(PosCase::Tape).collect();
    if !crashes.is_empty() {
        run.exhaustive_part("fuzz_crashes", RULE, crashes, |c: &PosCase, st: &mut Stats| {
            for gp in c.positions(Mix::General, 16, st) {
                check_position(&gp.pos, st)?;
            }
            Ok(())
        });
    }
    RULE
}
