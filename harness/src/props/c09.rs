//! C09 Stopping is safe at every instant.
use super::c02::snapshot;
use super::searchlib::*;
use crate::engine::search::PersistentState;
use crate::framework::*;
use crate::refchess::Pos;
use proptest::strategy::Strategy;
use serde::{Deserialize, Serialize};
use serde_json::json;

pub const RULE: &str = "case = (game, depth 8-11 under an infinite, a far-away fixed-move-time or a far-away clock time control, hash 1/2/3/16 MB, 0-2 earlier searches). The unstopped search is run once with hook H1 counting the polls of the stop flag -> N. Then for every k = 1..N (all k when N <= 24, else 1, 2, N-1, N and 12 generated indices (4 when N > 60)) the search is repeated from an identically prepared state with the flag made to read true from the k-th poll on. Oracle: no panic; the move returned is in the reference legal set; the total number of polls equals k (any node examined after the stop was observed would poll again); every line reported before the stop passes the C08 oracle; the Game passed in is unchanged; the position at which the stop was observed (hook H3) is searched next on the same tables (depth 2 under 40 ms) and must give a legal move and legal lines without panic; a follow-up search (unstopped, depth 3-5, same state, same or successor position) passes the complete C08 oracle and returns a legal move. A second family calls the real Control::stop() from another thread after a generated delay; a third ends the search by an expired fixed move time of 0-20 ms instead of a stop request. A 'first_iteration' part uses capture-storm positions (4-8 queens a side) at depth 1-2, where the first poll already falls inside the first iteration, with every k. An 'any_node' part places the first in-search poll at an arbitrary node N of the search (hook H5; 14 values of N per case, uniform over the nodes of the unstopped search; depth 5-8 with earlier searches, or depth 9-11 from empty tables), under the stop flag and under an expired limit (hook H4), and demands in addition that no node is entered after the stop was observed. Every other index of the fixed-move-time and clock cases of 'stops' ends by an expired limit at poll k instead of the flag. Non-trivial = k strictly inside an iteration (not the between-iterations poll); distinct by (case, k).";

#[derive(Serialize, Deserialize, Clone, Debug)]
pub enum Case {
    Tape(Vec<u16>),
    Explicit { hash_mb: usize, priors: Vec<SearchSpec>, main: SearchSpec, ks: Vec<u64>, followup: SearchSpec, stopper_delays_us: Vec<u64> },
}

struct Built {
    hash_mb: usize,
    priors: Vec<SearchSpec>,
    main: SearchSpec,
    followup: SearchSpec,
}

fn prepare(b: &Built) -> Option<PersistentState> {
    let mut state = PersistentState::new(b.hash_mb);
    for p in &b.priors {
        let (_, g) = build(p)?;
        run_search(&g, &mut state, &p.limit, 0).ok()?;
    }
    Some(state)
}

fn from_tape(data: &[u16], tier: Tier) -> Option<(Built, Tape)> {
    let mut t = Tape::new(data);
    let hash_mb = [1usize, 1, 2, 3, 16][t.pick(5)];
    let (fen, moves, pos, _) = gen_game_opts(&mut t, 1, 8, false)?; // capture storms have their own part below
    let depth = 8 + t.pick(tier.pick(2, 4)) as u8;
    let main = SearchSpec { fen: fen.clone(), moves: moves.clone(), limit: Limit::Depth(depth) };
    // the same depth-limited search under each kind of time control (all limits far away): the stop
    // flag is consulted in the Infinite, ExactTime and Clocks arms alike
    let flavour = t.pick(4);
    let mut priors = vec![];
    let np = t.pick(3);
    for _ in 0..np {
        let (f2, m2) = if t.pick(2) == 0 {
            let mut mv = moves.clone();
            mv.pop();
            (fen.clone(), mv)
        } else {
            let (f, m, _, _) = gen_game_opts(&mut t, 2, 6, false)?;
            (f, m)
        };
        priors.push(SearchSpec { fen: f2, moves: m2, limit: Limit::Depth(2 + t.pick(4) as u8) });
    }
    // follow-up: same position or a successor
    let mut fm = moves.clone();
    if t.pick(2) == 0 {
        let legal = pos.legal_moves();
        let m = legal[t.pick(legal.len())];
        if !pos.make(&m).legal_moves().is_empty() {
            fm.push(m.uci());
        }
    }
    let mut followup = SearchSpec { fen, moves: fm, limit: Limit::Depth(3 + t.pick(3) as u8) };
    let mut main = main;
    tame(&mut main);
    tame(&mut followup);
    if let Limit::Depth(d) = main.limit {
        main.limit = match flavour {
            0 => Limit::DepthUnderMoveTime { depth: d, ms: 3_600_000 },
            1 => Limit::Clocks { wtime: Some(360_000_000), btime: Some(360_000_000), winc: None, binc: None, movestogo: Some(1), depth: Some(d) },
            _ => Limit::Depth(d),
        };
    }
    for p in priors.iter_mut() {
        tame(p);
    }
    Some((Built { hash_mb, priors, main, followup }, t))
}

/// The position at which the stop was observed is searched next, on the same tables: whatever the
/// unwinding search left behind for exactly that position must still be usable.
fn check_stop_position(stopped_at: &Option<String>, root: &Pos, state: &mut PersistentState, st: &mut Stats, what: &str) -> Result<(), Fail> {
    let Some(fen) = stopped_at else { return Ok(()) };
    let Ok(p) = Pos::from_fen(fen) else { return Ok(()) };
    if p.validate().is_err() || p.legal_moves().is_empty() || p.to_fen() == root.to_fen() {
        return Ok(());
    }
    st.class("search_of_the_position_where_the_stop_was_seen");
    let g = crate::adapter::to_game(&p);
    // bounded by time as well: the position may still be a capture storm
    let limit = Limit::DepthUnderMoveTime { depth: 2, ms: 40 };
    let out = run_search(&g, state, &limit, 0).map_err(|pm| Fail::new(&format!("stop_position_panic:{}", panic_signature(&pm)), format!("after {what}, a search of the position where the stop was seen ({fen}) on the same tables panicked: {pm}")))?;
    if !legal_in(&p, out.best) {
        return Err(Fail::new("stop_position:bestmove_illegal", format!("after {what}, a search of the position where the stop was seen ({fen}) on the same tables returned illegal {:?}", out.best)));
    }
    check_reports(&p, &out.infos, None, st).map_err(|mut f| {
        f.signature = format!("stop_position:{}", f.signature);
        f.msg = format!("after {what}, search of the position where the stop was seen ({fen}): {}", f.msg);
        f
    })
}

fn check_followup(b: &Built, state: &mut PersistentState, st: &mut Stats, what: &str) -> Result<(), Fail> {
    let Some((fpos, fgame)) = build(&b.followup) else { return Ok(()) };
    if fpos.legal_moves().is_empty() {
        return Ok(());
    }
    let Limit::Depth(fd) = b.followup.limit else { return Ok(()) };
    let out = run_search(&fgame, state, &b.followup.limit, 0)
        .map_err(|pm| Fail::new(&format!("followup_panic:{}", panic_signature(&pm)), format!("follow-up search after {what} panicked: {pm}")))?;
    check_reports(&fpos, &out.infos, Some(fd), st).map_err(|mut f| {
        f.signature = format!("followup:{}", f.signature);
        f.msg = format!("follow-up search after {what}: {}", f.msg);
        f
    })?;
    if !legal_in(&fpos, out.best) {
        return Err(Fail::new("followup:bestmove_illegal", format!("follow-up search after {what} returned illegal {:?} at {}", out.best, fpos.to_fen())));
    }
    Ok(())
}

fn run_built(b: &Built, ks_explicit: Option<&[u64]>, delays: Option<&[u64]>, mut t: Option<Tape>, st: &mut Stats) -> Result<(), Fail> {
    let Some((pos, game)) = build(&b.main) else { return Ok(()) };
    if pos.legal_moves().is_empty() {
        return Ok(());
    }
    if let Limit::MoveTime(ms) = b.main.limit {
        // replay form of the expired-limit family
        st.eval();
        let Some(mut state) = prepare(b) else { return Ok(()) };
        let out = run_search(&game, &mut state, &b.main.limit, 0).map_err(|pm| Fail::new(&format!("stopped_search_panic:{}", panic_signature(&pm)), format!("search with movetime {ms} panicked: {pm}")))?;
        if !legal_in(&pos, out.best) {
            return Err(Fail::new("stopped:bestmove_illegal", format!("search at {} with movetime {ms} returned illegal {:?}", pos.to_fen(), out.best)));
        }
        check_reports(&pos, &out.infos, None, st)?;
        check_stop_position(&out.stopped_at, &pos, &mut state, st, &format!("a search ended by movetime {ms}"))?;
        return check_followup(b, &mut state, st, &format!("a search ended by movetime {ms}"));
    }
    let depth = match b.main.limit {
        Limit::Depth(d) => d,
        Limit::DepthUnderMoveTime { depth, .. } => depth,
        Limit::Clocks { depth: Some(d), .. } => d,
        _ => return Ok(()),
    };
    st.class(match b.main.limit {
        Limit::Depth(_) => "time_control:infinite",
        Limit::DepthUnderMoveTime { .. } => "time_control:fixed_move_time",
        _ => "time_control:clocks",
    });
    let ex = |ks: Vec<u64>, ds: Vec<u64>| json!({"Explicit": {"hash_mb": b.hash_mb, "priors": b.priors, "main": b.main, "ks": ks, "followup": b.followup, "stopper_delays_us": ds}});
    // reference run: count polls
    let Some(mut state0) = prepare(b) else { return Ok(()) };
    let before = snapshot(&game);
    let reference = run_search(&game, &mut state0, &b.main.limit, 0)
        .map_err(|pm| Fail::new(&format!("search_panic:{}", panic_signature(&pm)), format!("unstopped search at {} depth {depth} panicked: {pm}", pos.to_fen())).explicit(ex(vec![], vec![])))?;
    let n = reference.polls;
    st.class_n("polls_in_unstopped_searches", n);
    // polls that happen between iterations: right after the report of iteration i (start test of i+1)
    let between: Vec<u64> = reference.infos.iter().map(|i| i.polls + 1).collect();
    let ks: Vec<u64> = match ks_explicit {
        Some(k) => k.to_vec(),
        None => {
            if n <= 24 {
                (1..=n).collect()
            } else {
                let t = t.as_mut().unwrap();
                let mut v = vec![1, 2, n - 1, n];
                // long searches (many polls) are costly to repeat: fewer extra indices there
                let extra = if n > 60 { 4 } else { 12 };
                for _ in 0..extra {
                    v.push(1 + t.pick(n as usize) as u64);
                }
                v.sort_unstable();
                v.dedup();
                v
            }
        }
    };
    // under a fixed move time or a clock, the search can also end because its limit has expired: every
    // other index of such a case is run that way (hook H4), the others with the stop flag
    let can_expire = !matches!(b.main.limit, Limit::Depth(_));
    let ks: Vec<u64> = match ks_explicit {
        Some(_) => ks,
        None => ks.into_iter().enumerate().map(|(i, k)| if can_expire && i % 2 == 1 { k + EXPIRY } else { k }).collect(),
    };
    for k_coded in ks {
        let at_node = k_coded >= AT_NODE;
        let v = if at_node { k_coded - AT_NODE } else { k_coded };
        let (k, expiry) = if v >= EXPIRY { (v - EXPIRY, true) } else { (v, false) };
        if k == 0 || (!at_node && k > n) || (expiry && !can_expire) {
            continue;
        }
        st.eval();
        if expiry {
            st.class(if at_node { "ended_by_an_expired_limit_at_node_N(hook)" } else { "ended_by_an_expired_limit_at_poll_k(hook)" });
        } else if at_node {
            st.class("stop_flag_seen_at_node_N(hook)");
        }
        let exk = || ex(vec![k_coded], vec![]);
        let Some(mut state) = prepare(b) else { return Ok(()) };
        let out = run_search(&game, &mut state, &b.main.limit, k_coded)
            .map_err(|pm| Fail::new(&format!("stopped_search_panic:{}", panic_signature(&pm)), format!("search at {} depth {depth} stopped at poll {k}/{n} panicked: {pm}", pos.to_fen())).explicit(exk()))?;
        let inside = at_node || !between.contains(&k);
        if inside {
            st.nontrivial(&(b.main.fen.clone(), b.main.moves.clone(), depth, b.hash_mb, b.priors.len(), k));
            st.class("stop_inside_an_iteration");
            if st.want_nontrivial_sample() {
                st.nontrivial_sample(json!({"fen": pos.to_fen(), "depth": depth, "hash_mb": b.hash_mb, "polls_unstopped": n, "k": k, "iterations_completed": out.infos.len(), "bestmove": format!("{:?}", out.best)}));
            }
        } else {
            st.class("stop_between_iterations");
        }
        if out.infos.is_empty() {
            st.class("stop_before_first_iteration_completed");
        }
        if !legal_in(&pos, out.best) {
            return Err(Fail::new("stopped:bestmove_illegal", format!("search at {} depth {depth} stopped at poll {k}/{n} returned {:?}, which is not legal", pos.to_fen(), out.best)).explicit(exk()));
        }
        if !at_node && out.polls != k {
            return Err(Fail::new("stopped:keeps_searching", format!("search at {} depth {depth}: stop first seen at poll {k} but the flag was polled {} times: positions were examined after the stop", pos.to_fen(), out.polls)).explicit(exk()));
        }
        if out.nodes_after_stop != 0 {
            return Err(Fail::new(
                "stopped:keeps_searching",
                format!("search at {} depth {depth}: after the {} was observed at {} {k}, {} more node(s) were entered", pos.to_fen(), if expiry { "expired limit" } else { "stop" }, if at_node { "node" } else { "poll" }, out.nodes_after_stop),
            )
            .explicit(exk()));
        }
        if at_node && out.stopped_at.is_none() {
            // the search ended before it reached that node (the tree is smaller than in the reference run)
            st.class("node_N_not_reached(search_ended_first)");
        }
        check_reports(&pos, &out.infos, Some(depth), st).map_err(|f| f.explicit(exk()))?;
        if snapshot(&game) != before {
            return Err(Fail::new("stopped:game_modified", format!("the game passed to the stopped search (poll {k}) was modified")).explicit(exk()));
        }
        check_stop_position(&out.stopped_at, &pos, &mut state, st, &format!("a stop at poll {k}/{n} of {} depth {depth}", pos.to_fen())).map_err(|f| f.explicit(exk()))?;
        check_followup(b, &mut state, st, &format!("a stop at poll {k}/{n} of {} depth {depth}", pos.to_fen())).map_err(|f| f.explicit(exk()))?;
    }
    // real stop flag from another thread
    let delays: Vec<u64> = match delays {
        Some(d) => d.to_vec(),
        None => {
            let t = t.as_mut().unwrap();
            (0..3).map(|_| [0u64, 50, 300, 1500, 5000, 20000][t.pick(6)] + t.pick(200) as u64).collect()
        }
    };
    for d in delays {
        st.eval();
        st.class("real_stop_from_other_thread");
        let exd = || ex(vec![], vec![d]);
        let Some(mut state) = prepare(b) else { return Ok(()) };
        let out = run_search_with_stopper(&game, &mut state, &b.main.limit, d)
            .map_err(|pm| Fail::new(&format!("stopped_search_panic:{}", panic_signature(&pm)), format!("search at {} depth {depth} stopped by Control::stop() after {d} us panicked: {pm}", pos.to_fen())).explicit(exd()))?;
        if !legal_in(&pos, out.best) {
            return Err(Fail::new("stopped:bestmove_illegal", format!("search at {} stopped by Control::stop() after {d} us returned illegal {:?}", pos.to_fen(), out.best)).explicit(exd()));
        }
        check_reports(&pos, &out.infos, Some(depth), st).map_err(|f| f.explicit(exd()))?;
        check_stop_position(&out.stopped_at, &pos, &mut state, st, &format!("Control::stop() after {d} us")).map_err(|f| f.explicit(exd()))?;
        check_followup(b, &mut state, st, &format!("Control::stop() after {d} us")).map_err(|f| f.explicit(exd()))?;
    }
    // an expired limit instead of a stop request: tiny fixed move times end the search at whatever
    // poll first sees the limit exceeded
    if ks_explicit.is_none() {
        let t = t.as_mut().unwrap();
        for _ in 0..2 {
            let ms = [0u32, 1, 3, 8, 20][t.pick(5)];
            st.eval();
            st.class("expired_movetime_limit");
            let Some(mut state) = prepare(b) else { return Ok(()) };
            let exm = || json!({"Explicit": {"hash_mb": b.hash_mb, "priors": b.priors, "main": SearchSpec { fen: b.main.fen.clone(), moves: b.main.moves.clone(), limit: Limit::MoveTime(ms) }, "ks": [], "followup": b.followup, "stopper_delays_us": []}});
            let out = run_search(&game, &mut state, &Limit::MoveTime(ms), 0)
                .map_err(|pm| Fail::new(&format!("stopped_search_panic:{}", panic_signature(&pm)), format!("search at {} with movetime {ms} panicked: {pm}", pos.to_fen())).explicit(exm()))?;
            if !legal_in(&pos, out.best) {
                return Err(Fail::new("stopped:bestmove_illegal", format!("search at {} with movetime {ms} returned illegal {:?}", pos.to_fen(), out.best)).explicit(exm()));
            }
            check_reports(&pos, &out.infos, None, st).map_err(|f| f.explicit(exm()))?;
            check_stop_position(&out.stopped_at, &pos, &mut state, st, &format!("a search ended by movetime {ms}")).map_err(|f| f.explicit(exm()))?;
            check_followup(b, &mut state, st, &format!("a search ended by movetime {ms}")).map_err(|f| f.explicit(exm()))?;
        }
    }
    Ok(())
}

pub fn run(run: &mut Run) -> &'static str {
    let tier = run.tier;
    run.watchdog_secs = Some(tier.pick(600, 3600));
    let cases = tier.pick(320, 4000);
    let strat = tape(24..100).prop_map(Case::Tape);
    run.proptest_part("stops", RULE, strat, cases, move |c: &Case, st: &mut Stats| match c {
        Case::Tape(t) => match from_tape(t, tier) {
            Some((b, tp)) => {
                if std::env::var("VERIF_DEBUG").is_ok() {
                    eprintln!("C09 case: hash {} priors {:?} main {:?} followup {:?}", b.hash_mb, b.priors, b.main, b.followup);
                }
                run_built(&b, None, None, Some(tp), st)
            }
            None => {
                st.discard();
                Ok(())
            }
        },
        Case::Explicit { hash_mb, priors, main, ks, followup, stopper_delays_us } => {
            let b = Built { hash_mb: *hash_mb, priors: priors.clone(), main: main.clone(), followup: followup.clone() };
            run_built(&b, Some(ks), Some(stopper_delays_us), None, st)
        }
    });
    // stops observed before the first iteration has completed: capture-storm positions whose depth-1
    // search alone exceeds the polling interval (the "panic move" path); depth 1-2, every k
    let cases = tier.pick(400, 8000);
    let strat = tape(24..80).prop_map(Case::Tape);
    run.proptest_part("first_iteration", RULE, strat, cases, move |c: &Case, st: &mut Stats| match c {
        Case::Tape(data) => {
            let mut t = Tape::new(data);
            let Some(p) = storm_theme_medium(&mut t) else {
                st.discard();
                return Ok(());
            };
            if p.legal_moves().is_empty() {
                st.discard();
                return Ok(());
            }
            let fen = p.to_fen();
            let main = SearchSpec { fen: fen.clone(), moves: vec![], limit: Limit::Depth(1 + t.pick(2) as u8) };
            let followup = SearchSpec { fen, moves: vec![], limit: Limit::Depth(1) };
            let b = Built { hash_mb: [1usize, 16][t.pick(2)], priors: vec![], main, followup };
            run_built(&b, None, Some(&[]), Some(t), st)
        }
        Case::Explicit { hash_mb, priors, main, ks, followup, stopper_delays_us } => {
            let b = Built { hash_mb: *hash_mb, priors: priors.clone(), main: main.clone(), followup: followup.clone() };
            run_built(&b, Some(ks), Some(stopper_delays_us), None, st)
        }
    });
    // the stop (or the expired limit) observed at an arbitrary node: hook H5 places the first in-search
    // poll at node N of the search - which node is the 10,000th is an accident of the position, so a
    // search must cope with a poll at any node - and counts the nodes entered after the stop was seen.
    // One stopped search costs N nodes only, so many more instants are visited than with whole polling
    // distances: 14 values of N per case, uniform over the nodes of the unstopped search.
    // (the oracle - nodes entered after the stop, legality, the follow-up searches - does not need the
    // checked build: the part runs in the fast profile when that binary is available, and in this
    // process otherwise and for replays)
    let here = profile_name() == "fast" || std::env::var("VERIF_FAST_BIN").is_err() || !run.only_parts.is_empty() || run.replay.is_some();
    let cases = tier.pick(700, 12_000);
    let strat = tape(24..100).prop_map(Case::Tape);
    if here {
    run.proptest_part("any_node", RULE, strat, cases, move |c: &Case, st: &mut Stats| match c {
        Case::Tape(data) => {
            let Some((mut b, mut tp)) = from_tape(data, tier) else {
                st.discard();
                return Ok(());
            };
            // shallower than in `stops`: the trees stay small, the instants many - except for a third
            // of the cases, which search 9-11 plies deep from empty tables (re-searches of a changed
            // principal variation, internal sub-searches and the like only exist in deep trees)
            let deep = tp.pick(3) == 0;
            let d = if deep { 9 + tp.pick(3) as u8 } else { 5 + tp.pick(4) as u8 };
            if deep {
                b.priors.clear();
                st.class("deep_search_from_empty_tables");
            }
            b.main.limit = match b.main.limit {
                Limit::Depth(_) => Limit::Depth(d),
                Limit::DepthUnderMoveTime { ms, .. } => Limit::DepthUnderMoveTime { depth: d, ms },
                Limit::Clocks { wtime, btime, winc, binc, movestogo, .. } => Limit::Clocks { wtime, btime, winc, binc, movestogo, depth: Some(d) },
                other => other,
            };
            let Some((pos, game)) = build(&b.main) else { return Ok(()) };
            if pos.legal_moves().is_empty() {
                return Ok(());
            }
            let Some(mut state0) = prepare(&b) else { return Ok(()) };
            let Ok(reference) = run_search(&game, &mut state0, &b.main.limit, 0) else { return Ok(()) };
            let total = reference.infos.last().map_or(0, |i| i.nodes);
            if total < 2 {
                return Ok(());
            }
            let can_expire = !matches!(b.main.limit, Limit::Depth(_));
            let mut ks = vec![];
            for i in 0..14 {
                let node = 1 + tp.pick(total.min(60_000) as usize) as u64 * (total / total.min(60_000)).max(1);
                let node = node.min(total);
                ks.push(AT_NODE + if can_expire && i % 2 == 1 { EXPIRY } else { 0 } + node);
            }
            run_built(&b, Some(&ks), Some(&[]), None, st)
        }
        Case::Explicit { hash_mb, priors, main, ks, followup, stopper_delays_us } => {
            let b = Built { hash_mb: *hash_mb, priors: priors.clone(), main: main.clone(), followup: followup.clone() };
            run_built(&b, Some(ks), Some(stopper_delays_us), None, st)
        }
    });
    }
    if let Ok(bin) = std::env::var("VERIF_FAST_BIN") {
        if profile_name() == "checked" && run.only_parts.is_empty() {
            run_sub_process(run, &bin, &["stops", "first_iteration", "any_node"]);
        }
    }
    RULE
}
