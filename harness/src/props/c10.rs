//! C10 The staged move picker yields every legal move exactly once.
use crate::adapter::*;
use crate::chess::game::Game;
use crate::chess::moves::Move;
use crate::chess::piece::PromotionPieceKind;
use crate::engine::options::EngineOptions;
use crate::engine::search::move_picker::MovePicker;
use crate::engine::search::time_control::TimeStrategy;
use crate::engine::search::{PersistentState, SearchContext, SearchRestrictions, TimeControl};
use crate::framework::*;
use crate::gen::{self, Mix};
use crate::refchess::{Kind, Mv, Pos};
use proptest::strategy::Strategy;
use serde::{Deserialize, Serialize};
use serde_json::json;
use std::cell::RefCell;

pub const RULE: &str = "case = (legal position reached by >= 1 move or given as a root, hash move = none or the i-th legal move, killers installed with try_push from a pool of {legal quiets, legal captures, the hash move, moves legal elsewhere, arbitrary from/to pairs}, counter move set the same way for the actual previous move and for others, history scores by 0-200 add_bonus_for calls, ply 0..=254). MovePicker::new(hash): the sequence until None (guarded at 300 calls) must be a permutation of the legal moves (engine list and reference set) with the hash move first; MovePicker::new_loud(): duplicate-free subset of the legal moves containing every capture, e.p. capture and queen promotion. Non-trivial = hash move present and a remembered killer/counter move is legal here and at least one losing capture exists; distinct by (position, table contents).";

thread_local! {
    static STATE: RefCell<PersistentState> = RefCell::new(PersistentState::new(1));
}

#[derive(Serialize, Deserialize, Clone, Debug)]
pub enum Case {
    Tape(Vec<u16>),
    Explicit {
        /// position before the previous move (or the position itself when `prev` is None)
        fen: String,
        prev: Option<String>,
        hash: Option<String>,
        killers: Vec<String>,
        counter: Vec<(String, String)>,
        history: Vec<(String, u8)>,
        ply: u8,
    },
}

/// textual move spec "e2e4", "e7e8q", with prefix letters for flags: x capture, c castle, p e.p.
fn spec(m: Move) -> String {
    let mut s = String::new();
    if m.is_en_passant() {
        s.push('p');
    } else if m.is_capture() {
        s.push('x');
    } else if m.is_castling() {
        s.push('c');
    }
    s.push_str(&format!("{m:?}"));
    s
}

fn parse_spec(t: &str) -> Option<Move> {
    let (flag, rest) = match t.chars().next()? {
        'x' => ('x', &t[1..]),
        'c' => ('c', &t[1..]),
        'p' => ('p', &t[1..]),
        _ => ('q', t),
    };
    if rest.len() < 4 {
        return None;
    }
    let from = crate::refchess::parse_sq(&rest[0..2])?;
    let to = crate::refchess::parse_sq(&rest[2..4])?;
    let promo = match rest.chars().nth(4) {
        Some('q') => Some(PromotionPieceKind::Queen),
        Some('r') => Some(PromotionPieceKind::Rook),
        Some('b') => Some(PromotionPieceKind::Bishop),
        Some('n') => Some(PromotionPieceKind::Knight),
        _ => None,
    };
    build_move(from, to, promo, flag)
}

fn build_move(from: u8, to: u8, promo: Option<PromotionPieceKind>, flag: char) -> Option<Move> {
    if from == 0 && to == 0 {
        return None; // not representable (NonZeroU16)
    }
    let (f, t) = (esq(from), esq(to));
    Some(match (promo, flag) {
        (Some(p), 'x') => Move::capture_promotion(f, t, p),
        (Some(p), _) => Move::quiet_promotion(f, t, p),
        (None, 'x') => Move::capture(f, t),
        (None, 'c') => Move::castles(f, t),
        (None, 'p') => Move::en_passant(f, t),
        (None, _) => Move::quiet(f, t),
    })
}

struct Setup {
    game: Game,
    pos: Pos,
    fen_before: String,
    prev: Option<Move>,
    hash: Option<Move>,
    killers: Vec<Move>,
    counter: Vec<(Move, Move)>,
    history: Vec<(Move, u8)>,
    ply: u8,
}

fn explicit_of(s: &Setup) -> serde_json::Value {
    json!({"Explicit": {
        "fen": s.fen_before,
        "prev": s.prev.map(|m| format!("{m:?}")),
        "hash": s.hash.map(spec),
        "killers": s.killers.iter().map(|m| spec(*m)).collect::<Vec<_>>(),
        "counter": s.counter.iter().map(|(a, b)| (spec(*a), spec(*b))).collect::<Vec<_>>(),
        "history": s.history.iter().map(|(m, d)| (spec(*m), *d)).collect::<Vec<_>>(),
        "ply": s.ply,
    }})
}

fn arbitrary_move(t: &mut Tape) -> Option<Move> {
    let from = t.pick(64) as u8;
    let to = t.pick(64) as u8;
    let promo = match t.pick(8) {
        0 => Some(PromotionPieceKind::Queen),
        1 => Some(PromotionPieceKind::Knight),
        _ => None,
    };
    let flag = ['q', 'q', 'x', 'c', 'p'][t.pick(5)];
    build_move(from, to, promo, flag)
}

fn build_from_tape(data: &[u16], st: &mut Stats) -> Option<Setup> {
    let mut t = Tape::new(data);
    let mix = if t.pick(3) == 0 { Mix::General } else { Mix::Tactical };
    let root = gen::gen_root(&mut t, mix)?;
    // walk a few plies so that there is a previous move
    let mut cur = root.pos;
    let mut parent: Option<(Pos, Mv)> = None;
    let plies = t.pick(6);
    for _ in 0..plies {
        let legal = cur.legal_moves();
        if legal.is_empty() {
            break;
        }
        let i = gen::pick_weighted(&mut t, &cur, &legal);
        let next = cur.make(&legal[i]);
        parent = Some((cur, legal[i]));
        cur = next;
    }
    let (game, fen_before, prev) = match &parent {
        Some((pp, m)) => {
            let mut g = to_game(pp);
            let em = find_move(&g, m)?;
            g.make_move(em);
            (g, pp.to_fen(), Some(em))
        }
        None => (to_game(&cur), cur.to_fen(), None),
    };
    let legal: Vec<Move> = game.moves().to_vec();
    if legal.is_empty() {
        st.class("terminal_position");
    }
    let quiets: Vec<Move> = legal.iter().copied().filter(|m| !m.is_capture()).collect();
    let caps: Vec<Move> = legal.iter().copied().filter(|m| m.is_capture()).collect();
    let hash = if legal.is_empty() || t.pick(4) == 0 { None } else { Some(legal[t.pick(legal.len())]) };
    // moves legal elsewhere: the parent position's moves
    let elsewhere: Vec<Move> = match &parent {
        Some((pp, _)) => to_game(pp).moves().to_vec(),
        None => vec![],
    };
    // what a search really remembers at this ply: moves of the *same side* that were legal in a sibling
    // node (the parent position after another reply) - e.g. a castling move, remembered where the king
    // was not in check, offered here where it is
    let mut siblings: Vec<Move> = vec![];
    if let Some((pp, played)) = &parent {
        let replies = pp.legal_moves();
        for _ in 0..2 {
            if replies.len() < 2 {
                break;
            }
            let r = replies[t.pick(replies.len())];
            if r == *played {
                continue;
            }
            siblings.extend(to_game(&pp.make(&r)).moves().to_vec());
        }
    }
    // this side's moves with king safety ignored (pinned pieces leaving their ray, king steps into
    // attack, non-evasions while in check), flagged the way the engine would flag them, and the
    // castling move of every right still held, whether or not it can be played here
    let mut near_misses: Vec<Move> = vec![];
    for m in cur.pseudo_moves() {
        let promo = m.promo.map(|k| match k {
            Kind::Q => PromotionPieceKind::Queen,
            Kind::R => PromotionPieceKind::Rook,
            Kind::B => PromotionPieceKind::Bishop,
            _ => PromotionPieceKind::Knight,
        });
        let flag = if m.ep { 'p' } else if m.capture { 'x' } else if m.castle { 'c' } else { 'q' };
        if let Some(em) = build_move(m.from, m.to, promo, flag) {
            if !legal.contains(&em) {
                near_misses.push(em);
            }
        }
    }
    let home = if cur.white_to_move { 0 } else { 56 };
    let rights = if cur.white_to_move { [cur.castle[0], cur.castle[1]] } else { [cur.castle[2], cur.castle[3]] };
    for (i, held) in rights.iter().enumerate() {
        if *held {
            let to = if i == 0 { home + 6 } else { home + 2 };
            if let Some(em) = build_move(home + 4, to, None, 'c') {
                if !legal.contains(&em) {
                    near_misses.push(em);
                }
            }
        }
    }
    let mut pool = |t: &mut Tape| -> Option<Move> {
        match t.pick(11) {
            0 | 1 | 2 if !quiets.is_empty() => Some(quiets[t.pick(quiets.len())]),
            3 if !caps.is_empty() => Some(caps[t.pick(caps.len())]),
            4 => hash,
            5 if !elsewhere.is_empty() => Some(elsewhere[t.pick(elsewhere.len())]),
            6 => arbitrary_move(t),
            7 | 8 if !siblings.is_empty() => Some(siblings[t.pick(siblings.len())]),
            9 | 10 if !near_misses.is_empty() => Some(near_misses[t.pick(near_misses.len())]),
            _ if !legal.is_empty() => Some(legal[t.pick(legal.len())]),
            _ => None,
        }
    };
    let nk = t.pick(4);
    let mut killers = vec![];
    for _ in 0..nk {
        if let Some(m) = pool(&mut t) {
            killers.push(m);
        }
    }
    // promotion families: distinct legal moves that share both squares. Make the hash move one
    // member and remember its siblings, so that any comparison on squares alone shows.
    let mut hash = hash;
    let family_heads: Vec<Move> = legal.iter().copied().filter(|m| m.promotion() == Some(PromotionPieceKind::Queen)).collect();
    let mut family_counter: Option<Move> = None;
    if !family_heads.is_empty() && t.pick(2) == 0 {
        let head = family_heads[t.pick(family_heads.len())];
        let family: Vec<Move> = legal.iter().copied().filter(|m| m.src() == head.src() && m.dst() == head.dst()).collect();
        hash = Some(family[t.pick(family.len())]);
        let nsib = 1 + t.pick(2);
        for _ in 0..nsib {
            killers.push(family[t.pick(family.len())]);
        }
        if t.pick(2) == 0 {
            family_counter = Some(family[t.pick(family.len())]);
        }
    }
    let nc = t.pick(3);
    let mut counter = vec![];
    for i in 0..nc {
        let key = if i == 0 && prev.is_some() { prev } else { arbitrary_move(&mut t) };
        if let (Some(k), Some(m)) = (key, pool(&mut t)) {
            counter.push((k, m));
        }
    }
    if let (Some(p), Some(m)) = (prev, family_counter) {
        counter.push((p, m));
    }
    let nh = if t.pick(3) == 0 { 0 } else { t.pick(40) };
    let mut history = vec![];
    for _ in 0..nh {
        if let Some(m) = pool(&mut t) {
            let d = [1u8, 2, 5, 12, 40, 120, 255][t.pick(7)];
            history.push((m, d));
        }
    }
    let ply = [0u8, 0, 1, 2, 7, 100, 254][t.pick(7)];
    Some(Setup { game, pos: cur, fen_before, prev, hash, killers, counter, history, ply })
}

fn build_explicit(c: &Case) -> Option<Setup> {
    let Case::Explicit { fen, prev, hash, killers, counter, history, ply } = c else { return None };
    let pp = Pos::from_fen(fen).ok()?;
    pp.validate().ok()?;
    let mut g = to_game(&pp);
    let mut pos = pp.clone();
    let mut pm = None;
    if let Some(p) = prev {
        let m = pp.legal_moves().into_iter().find(|m| &m.uci() == p)?;
        let em = find_move(&g, &m)?;
        g.make_move(em);
        pos = pp.make(&m);
        pm = Some(em);
    }
    Some(Setup {
        game: g,
        pos,
        fen_before: fen.clone(),
        prev: pm,
        hash: hash.as_deref().and_then(parse_spec),
        killers: killers.iter().filter_map(|s| parse_spec(s)).collect(),
        counter: counter.iter().filter_map(|(a, b)| Some((parse_spec(a)?, parse_spec(b)?))).collect(),
        history: history.iter().filter_map(|(m, d)| Some((parse_spec(m)?, *d))).collect(),
        ply: (*ply).min(254),
    })
}

fn check(s: &Setup, st: &mut Stats) -> Result<(), Fail> {
    st.eval();
    let fen = s.pos.to_fen();
    let ex = || explicit_of(s);
    let legal: Vec<Move> = s.game.moves().to_vec();
    let mut ref_keys: Vec<(u8, u8, u8)> = s.pos.legal_moves().iter().map(Mv::key).collect();
    ref_keys.sort_unstable();
    if let Some(h) = s.hash {
        // domain: the hash move is a legal move of the position
        if !legal.contains(&h) {
            return Ok(());
        }
    }
    STATE.with(|state| -> Result<(), Fail> {
        let mut state = state.borrow_mut();
        state.history_table.reset();
        let options = EngineOptions::default();
        let (mut ts, _control) = TimeStrategy::new(&s.game, &TimeControl::Infinite, &options);
        let restrictions = SearchRestrictions::default();
        let mut ctx = SearchContext::new(&mut state, &mut ts, &options, &restrictions);
        for k in &s.killers {
            ctx.killer_moves.try_push(s.ply, *k);
        }
        for (key, m) in &s.counter {
            ctx.countermove_table.set(s.game.player, *key, *m);
        }
        for (m, d) in &s.history {
            ctx.history_table.add_bonus_for(s.game.player, *m, *d);
        }
        // classes
        let k0 = ctx.killer_moves.get_0(s.ply);
        let k1 = ctx.killer_moves.get_1(s.ply);
        let cm = s.prev.and_then(|p| ctx.countermove_table.get(s.game.player, p));
        let remembered_legal = [k0, k1, cm].iter().flatten().any(|m| legal.contains(m));
        let losing_capture = legal
            .iter()
            .any(|m| m.is_capture() && !m.is_en_passant() && !crate::engine::see::see(&s.game, *m, crate::engine::eval::Eval(0)));
        if s.hash.is_some() {
            st.class("hash_move");
        }
        if let Some(h) = s.hash {
            if [k0, k1, cm].iter().flatten().any(|m| *m != h && m.src() == h.src() && m.dst() == h.dst() && legal.contains(m)) {
                st.class("remembered_move_shares_squares_with_hash_move");
            }
        }
        if k0.is_some() && k0 == s.hash {
            st.class("killer1_is_hash_move");
        }
        if k1.is_some() && k1 == s.hash {
            st.class("killer2_is_hash_move");
        }
        if cm.is_some() && (cm == k0 || cm == k1) {
            st.class("counter_is_a_killer");
        }
        if cm.is_some() && cm == s.hash {
            st.class("counter_is_hash_move");
        }
        if [k0, k1].iter().flatten().any(|m| !legal.contains(m)) {
            st.class("killer_not_legal_here");
        }
        if cm.map_or(false, |m| !legal.contains(&m)) {
            st.class("counter_not_legal_here");
        }
        if [k0, k1, cm].iter().flatten().any(|m| m.is_capture() && legal.contains(m)) {
            st.class("remembered_move_is_capture");
        }
        if losing_capture {
            st.class("losing_capture");
        }
        if s.hash.map_or(false, |h| h.is_capture() && !h.is_en_passant() && !crate::engine::see::see(&s.game, h, crate::engine::eval::Eval(0))) {
            st.class("hash_is_losing_capture");
        }
        if s.hash.is_some() && remembered_legal && losing_capture {
            st.nontrivial(&(s.pos.identity(), s.hash.map(spec), k0.map(spec), k1.map(spec), cm.map(spec), s.history.len(), s.ply));
            if st.want_nontrivial_sample() {
                st.nontrivial_sample(explicit_of(s));
            }
        } else if st.want_sample() {
            st.sample(explicit_of(s));
        }
        // full stream
        let mut picker = MovePicker::new(s.hash);
        let mut stream: Vec<Move> = vec![];
        let mut ended = false;
        for _ in 0..300 {
            match picker.next(&s.game, &ctx, s.ply) {
                Some(m) => stream.push(m),
                None => {
                    ended = true;
                    break;
                }
            }
        }
        if !ended {
            return Err(Fail::new("picker:does_not_end", format!("{fen}: picker still yields after 300 calls")).explicit(ex()));
        }
        if let Some(h) = s.hash {
            if stream.first() != Some(&h) {
                return Err(Fail::new("picker:hash_move_not_first", format!("{fen}: hash move {h:?} not first: {:?}", stream.first())).explicit(ex()));
            }
        }
        let mut sorted: Vec<(u8, u8, u8)> = stream.iter().map(|m| mkey(*m)).collect();
        sorted.sort_unstable();
        if let Some(w) = sorted.windows(2).find(|w| w[0] == w[1]) {
            let m = stream.iter().find(|m| mkey(**m) == w[0]).unwrap();
            return Err(Fail::new("picker:move_twice", format!("{fen}: move {m:?} handed out twice; stream {stream:?}")).explicit(ex()));
        }
        let mut eng_keys: Vec<(u8, u8, u8)> = legal.iter().map(|m| mkey(*m)).collect();
        eng_keys.sort_unstable();
        if sorted != eng_keys || sorted != ref_keys {
            let missing: Vec<String> = legal.iter().filter(|m| !stream.contains(m)).map(|m| format!("{m:?}")).collect();
            let extra: Vec<String> = stream.iter().filter(|m| !legal.contains(m)).map(|m| format!("{m:?}")).collect();
            let sig = if !missing.is_empty() { "picker:move_missing" } else { "picker:illegal_move" };
            return Err(Fail::new(sig, format!("{fen}: stream is not the legal move set: missing {missing:?}, extra {extra:?}")).explicit(ex()));
        }
        // captures-only variant
        let mut loud = MovePicker::new_loud();
        let mut lstream: Vec<Move> = vec![];
        let mut ended = false;
        for _ in 0..300 {
            match loud.next(&s.game, &ctx, s.ply) {
                Some(m) => lstream.push(m),
                None => {
                    ended = true;
                    break;
                }
            }
        }
        if !ended {
            return Err(Fail::new("loud:does_not_end", format!("{fen}: captures-only picker still yields after 300 calls")).explicit(ex()));
        }
        for (i, m) in lstream.iter().enumerate() {
            if lstream[..i].contains(m) {
                return Err(Fail::new("loud:move_twice", format!("{fen}: captures-only picker hands out {m:?} twice")).explicit(ex()));
            }
            if !legal.contains(m) {
                return Err(Fail::new("loud:illegal_move", format!("{fen}: captures-only picker yields illegal {m:?}")).explicit(ex()));
            }
        }
        for m in &legal {
            let must = m.is_capture() || m.promotion() == Some(PromotionPieceKind::Queen);
            if must && !lstream.contains(m) {
                return Err(Fail::new("loud:capture_missing", format!("{fen}: captures-only picker omits {m:?}; got {lstream:?}")).explicit(ex()));
            }
        }
        Ok(())
    })
}

/// One generated case from its choice tape (also the entry point of the `picker` fuzz target).
pub fn check_tape(t: &[u16], st: &mut Stats) -> Result<(), Fail> {
    match build_from_tape(t, st) {
        Some(s) => check(&s, st),
        None => {
            st.discard();
            Ok(())
        }
    }
}

pub fn run(run: &mut Run) -> &'static str {
    let cases = run.tier.pick(5_000_000, 40_000_000);
    let strat = tape(8..160).prop_map(Case::Tape);
    run.proptest_part("streams", RULE, strat, cases, |c: &Case, st: &mut Stats| {
        let setup = match c {
            Case::Tape(t) => build_from_tape(t, st),
            e => build_explicit(e),
        };
        match setup {
            Some(s) => check(&s, st),
            None => {
                st.discard();
                Ok(())
            }
        }
    });
    let crashes: Vec<Case> = super::fuzzglue::campaign(run, "picker", 600_000, 12, 320).into_iter().map(Case::Tape).collect();
    if !crashes.is_empty() {
        run.exhaustive_part("fuzz_crashes", RULE, crashes, |c: &Case, st: &mut Stats| match c {
            Case::Tape(t) => check_tape(t, st),
            _ => Ok(()),
        });
    }
    RULE
}
