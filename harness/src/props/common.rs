use crate::framework::{tape, Stats, Tape};
use crate::gen::{self, GenPos, Mix};
use crate::refchess::Pos;
use proptest::strategy::Strategy;
use serde::{Deserialize, Serialize};

/// A position case: generated as a choice tape, replayed as an explicit FEN.
#[derive(Serialize, Deserialize, Clone, Debug)]
pub enum PosCase {
    Tape(Vec<u16>),
    Fen(String),
    /// two positions handled one after the other (replay form of the key-collision parts)
    Pair(String, String),
}

pub fn pos_case(len: std::ops::Range<usize>) -> impl Strategy<Value = PosCase> + Sync {
    tape(len).prop_map(PosCase::Tape)
}

impl PosCase {
    /// The positions this case stands for: the whole walk for a tape, one position for a FEN.
    pub fn positions(&self, mix: Mix, max_plies: usize, st: &mut Stats) -> Vec<GenPos> {
        match self {
            PosCase::Tape(t) => {
                let mut tp = Tape::new(t);
                let v = gen::gen_walk(&mut tp, mix, max_plies);
                if v.is_empty() {
                    st.discard();
                }
                v
            }
            PosCase::Pair(a, b) => [a, b].iter().filter_map(|f| Pos::from_fen(f).ok()).filter(|p| p.validate().is_ok()).map(|p| GenPos { pos: p, src: "replay" }).collect(),
            PosCase::Fen(f) => match Pos::from_fen(f) {
                Ok(p) => match p.validate() {
                    Ok(()) => vec![GenPos { pos: p, src: "replay" }],
                    Err(e) => {
                        println!("replay FEN is not a legal position by the reference model ({e}); out of domain");
                        vec![]
                    }
                },
                Err(e) => {
                    println!("replay FEN unreadable: {e}");
                    vec![]
                }
            },
        }
    }
}

pub fn explicit_fen(p: &Pos) -> serde_json::Value {
    serde_json::json!({ "Fen": p.to_fen() })
}
