//! C01 Legal move generation is exact — differential against the reference model.
use super::common::*;
use crate::adapter::*;
use crate::chess::movegen::{generate_captures, generate_legal_moves, generate_quiets, MovegenCache};
use crate::chess::moves::MoveList;
use crate::framework::*;
use crate::gen::{classify, Mix};
use crate::refchess::{Mv, Pos};
use crate::{ensure, fail};
use serde_json::json;

pub const RULE: &str = "positions: root/theme/random placement followed by a weighted walk of reference-legal moves, every position on the walk is compared (engine move list vs reference legal set, flags, check verdict, staged vs full generation); 1 in 16 positions also compares every child position. Non-trivial = position in at least one special class (check, double check, pinned piece, e.p. target with a pseudo-legal capturer, castling right present, promotion available); distinct by position identity.";

/// Compare one position. `src` only labels statistics.
pub fn compare_position(p: &Pos, st: &mut Stats, src: &str, count: bool) -> Result<(), Fail> {
    let g = to_game(p);
    let legal = p.legal_moves();
    let mut want: Vec<(u8, u8, u8)> = legal.iter().map(Mv::key).collect();
    want.sort_unstable();
    let eng: MoveList = g.moves();
    let mut got: Vec<(u8, u8, u8)> = eng.iter().map(|m| mkey(*m)).collect();
    got.sort_unstable();
    let fen = p.to_fen();
    let ex = || explicit_fen(p);
    if count {
        st.eval();
        st.class(&format!("src:{src}"));
        let classes = classify(p);
        let special = classes
            .iter()
            .any(|c| matches!(*c, "check" | "double_check" | "pinned_piece" | "ep_capturer" | "castle_right" | "promotion"));
        for c in &classes {
            st.class(c);
        }
        if special {
            st.nontrivial(&p.identity());
            if st.want_nontrivial_sample() {
                st.nontrivial_sample(json!({"fen": fen, "classes": classes, "legal_moves": legal.len()}));
            }
        } else if st.want_sample() {
            st.sample(json!({"fen": fen, "legal_moves": legal.len()}));
        }
    }
    // none twice
    for w in got.windows(2) {
        if w[0] == w[1] {
            return Err(Fail::new("duplicate_move", format!("{fen}: engine lists a move twice: {:?}", w[0])).explicit(ex()));
        }
    }
    // none missing, none extra
    let missing: Vec<String> = legal.iter().filter(|m| !got.contains(&m.key())).map(Mv::uci).collect();
    let extra: Vec<String> = eng.iter().filter(|m| !want.contains(&mkey(**m))).map(|m| move_uci(*m)).collect();
    if !missing.is_empty() {
        let kind = if legal.iter().any(|m| m.ep && !got.contains(&m.key())) {
            "missing_move:en_passant"
        } else if legal.iter().any(|m| m.castle && !got.contains(&m.key())) {
            "missing_move:castle"
        } else {
            "missing_move"
        };
        return Err(Fail::new(kind, format!("{fen}: legal move(s) not generated: {missing:?}"))
            .with(json!({"fen": fen, "missing": missing, "extra": extra}))
            .explicit(ex()));
    }
    if !extra.is_empty() {
        return Err(Fail::new("illegal_move", format!("{fen}: illegal move(s) generated: {extra:?}"))
            .with(json!({"fen": fen, "extra": extra}))
            .explicit(ex()));
    }
    // labels
    for m in eng.iter() {
        let r = legal.iter().find(|r| r.key() == mkey(*m)).unwrap();
        ensure!(m.is_capture() == r.capture, "flag_capture", "{fen}: move {m:?} capture flag {} but rules say {}", m.is_capture(), r.capture);
        ensure!(m.is_en_passant() == r.ep, "flag_en_passant", "{fen}: move {m:?} en-passant flag {} but rules say {}", m.is_en_passant(), r.ep);
        ensure!(m.is_castling() == r.castle, "flag_castle", "{fen}: move {m:?} castling flag {} but rules say {}", m.is_castling(), r.castle);
    }
    // check verdict
    if g.is_king_in_check() != p.in_check() {
        return Err(Fail::new("in_check", format!("{fen}: engine says in check = {}, rules say {}", g.is_king_in_check(), p.in_check())).explicit(ex()));
    }
    // staged generation with a shared cache equals the one-shot generation
    let mut staged = MoveList::new();
    let mut cache = MovegenCache::new();
    generate_captures(&g, &mut staged, &mut cache);
    let ncap = staged.len();
    generate_quiets(&g, &mut staged, &cache);
    let mut full = MoveList::new();
    generate_legal_moves(&g, &mut full);
    if staged.as_slice() != full.as_slice() {
        return Err(Fail::new("staged_vs_full", format!("{fen}: captures+quiets differs from generate_legal_moves")).explicit(ex()));
    }
    // the capture stage holds exactly the captures and queen promotions; the quiet stage the rest
    for (i, m) in staged.iter().enumerate() {
        let loud = m.is_capture() || promo_idx(m.promotion()) == crate::refchess::Kind::Q.idx() as u8;
        if loud != (i < ncap) {
            return Err(Fail::new("stage_split", format!("{fen}: move {m:?} in the wrong generation stage")).explicit(ex()));
        }
    }
    Ok(())
}

pub fn run(run: &mut Run) -> &'static str {
    let cases = run.tier.pick(160_000, 4_000_000);
    run.proptest_part("walks", RULE, pos_case(4..160), cases, |case: &PosCase, st: &mut Stats| {
        let ps = case.positions(Mix::General, 40, st);
        for (i, gp) in ps.iter().enumerate() {
            compare_position(&gp.pos, st, gp.src, true)?;
            // two-ply differential on a sample of positions (children built by the reference model)
            let deep = matches!(case, PosCase::Fen(_)) || (crate::framework::hash_of(&gp.pos.identity()) % 16 == 0 && i % 2 == 0);
            if deep {
                st.class("two_ply");
                for m in gp.pos.legal_moves() {
                    let child = gp.pos.make(&m);
                    compare_position(&child, st, "child", true)?;
                }
            }
        }
        Ok(())
    });
    // thorough: coverage-guided fuzzing of the position generators' choice tape (libFuzzer), the same
    // differential oracle inside the target; crashing tapes are replayed here in the checked build
    if run.tier == Tier::Thorough && run.replay.is_none() && run.only_parts.is_empty() {
        match run_fuzz("movegen", run.seed, 150_000, 12, 400, &[]) {
            Ok((execs, corpus, crashes)) => {
                run.extra.insert("fuzz".into(), json!({"target": "movegen", "engine": "libFuzzer (cargo-fuzz)", "executions": execs, "corpus_files": corpus, "crashing_inputs": crashes.len(), "jobs": 12}));
                let tapes: Vec<PosCase> = crashes.iter().map(|b| PosCase::Tape(b.chunks(2).map(|c| u16::from_le_bytes([c[0], *c.get(1).unwrap_or(&0)])).collect())).collect();
                if !tapes.is_empty() {
                    run.exhaustive_part("fuzz_crashes", RULE, tapes, |case: &PosCase, st: &mut Stats| {
                        for gp in case.positions(Mix::General, 24, st) {
                            compare_position(&gp.pos, st, gp.src, true)?;
                        }
                        Ok(())
                    });
                }
            }
            Err(e) => {
                println!("note: fuzz campaign skipped: {e}");
                run.extra.insert("fuzz".into(), json!({"skipped": e}));
            }
        }
    }
    RULE
}
