//! C01 Legal move generation is exact — differential against the reference model.
use super::common::*;
use crate::adapter::*;
use crate::chess::movegen::{generate_captures, generate_legal_moves, generate_quiets, MovegenCache};
use crate::chess::moves::MoveList;
use crate::framework::*;
use crate::gen::{classify, Mix};
use crate::refchess::{Mv, Pos};
use crate::{ensure, fail};
use serde_json::json;

pub const RULE: &str = "positions: root/theme/random placement followed by a weighted walk of reference-legal moves, every position on the walk is compared (engine move list vs reference legal set, flags, check verdict, staged vs full generation); 1 in 16 positions also compares every child position. A 'slider_line_patterns' part enumerates every occupancy pattern of the relevant line squares of a rook / bishop / queen of the side to move on every square (107 648 patterns), builds a legal position around each and compares the move lists. Non-trivial = position in at least one special class (check, double check, pinned piece, e.p. target with a pseudo-legal capturer, castling right present, promotion available); distinct by position identity.";

/// Case of the part `slider_line_patterns`: one slider line set (all its patterns are enumerated inside), or
/// a FEN for replay.
#[derive(serde::Serialize, serde::Deserialize, Clone, Debug)]
pub enum PosCaseLine {
    Line { square: u8, diagonal: bool },
    Fen(String),
}

/// Compare one position. `src` only labels statistics.
pub fn compare_position(p: &Pos, st: &mut Stats, src: &str, count: bool) -> Result<(), Fail> {
    let g = to_game(p);
    let legal = p.legal_moves();
    let mut want: Vec<(u8, u8, u8)> = legal.iter().map(Mv::key).collect();
    want.sort_unstable();
    let eng: MoveList = g.moves();
    let mut got: Vec<(u8, u8, u8)> = eng.iter().map(|m| mkey(*m)).collect();
    got.sort_unstable();
    let fen = p.to_fen();
    let ex = || explicit_fen(p);
    if count {
        st.eval();
        st.class(&format!("src:{src}"));
        let classes = classify(p);
        let special = classes
            .iter()
            .any(|c| matches!(*c, "check" | "double_check" | "pinned_piece" | "ep_capturer" | "castle_right" | "promotion"));
        for c in &classes {
            st.class(c);
        }
        if special {
            st.nontrivial(&p.identity());
            if st.want_nontrivial_sample() {
                st.nontrivial_sample(json!({"fen": fen, "classes": classes, "legal_moves": legal.len()}));
            }
        } else if st.want_sample() {
            st.sample(json!({"fen": fen, "legal_moves": legal.len()}));
        }
    }
    // none twice
    for w in got.windows(2) {
        if w[0] == w[1] {
            return Err(Fail::new("duplicate_move", format!("{fen}: engine lists a move twice: {:?}", w[0])).explicit(ex()));
        }
    }
    // none missing, none extra
    let missing: Vec<String> = legal.iter().filter(|m| !got.contains(&m.key())).map(Mv::uci).collect();
    let extra: Vec<String> = eng.iter().filter(|m| !want.contains(&mkey(**m))).map(|m| move_uci(*m)).collect();
    if !missing.is_empty() {
        let kind = if legal.iter().any(|m| m.ep && !got.contains(&m.key())) {
            "missing_move:en_passant"
        } else if legal.iter().any(|m| m.castle && !got.contains(&m.key())) {
            "missing_move:castle"
        } else {
            "missing_move"
        };
        return Err(Fail::new(kind, format!("{fen}: legal move(s) not generated: {missing:?}"))
            .with(json!({"fen": fen, "missing": missing, "extra": extra}))
            .explicit(ex()));
    }
    if !extra.is_empty() {
        return Err(Fail::new("illegal_move", format!("{fen}: illegal move(s) generated: {extra:?}"))
            .with(json!({"fen": fen, "extra": extra}))
            .explicit(ex()));
    }
    // labels
    for m in eng.iter() {
        let r = legal.iter().find(|r| r.key() == mkey(*m)).unwrap();
        ensure!(m.is_capture() == r.capture, "flag_capture", "{fen}: move {m:?} capture flag {} but rules say {}", m.is_capture(), r.capture);
        ensure!(m.is_en_passant() == r.ep, "flag_en_passant", "{fen}: move {m:?} en-passant flag {} but rules say {}", m.is_en_passant(), r.ep);
        ensure!(m.is_castling() == r.castle, "flag_castle", "{fen}: move {m:?} castling flag {} but rules say {}", m.is_castling(), r.castle);
    }
    // check verdict
    if g.is_king_in_check() != p.in_check() {
        return Err(Fail::new("in_check", format!("{fen}: engine says in check = {}, rules say {}", g.is_king_in_check(), p.in_check())).explicit(ex()));
    }
    // staged generation with a shared cache equals the one-shot generation
    let mut staged = MoveList::new();
    let mut cache = MovegenCache::new();
    generate_captures(&g, &mut staged, &mut cache);
    let ncap = staged.len();
    generate_quiets(&g, &mut staged, &cache);
    let mut full = MoveList::new();
    generate_legal_moves(&g, &mut full);
    if staged.as_slice() != full.as_slice() {
        return Err(Fail::new("staged_vs_full", format!("{fen}: captures+quiets differs from generate_legal_moves")).explicit(ex()));
    }
    // the capture stage holds exactly the captures and queen promotions; the quiet stage the rest
    for (i, m) in staged.iter().enumerate() {
        let loud = m.is_capture() || promo_idx(m.promotion()) == crate::refchess::Kind::Q.idx() as u8;
        if loud != (i < ncap) {
            return Err(Fail::new("stage_split", format!("{fen}: move {m:?} in the wrong generation stage")).explicit(ex()));
        }
    }
    Ok(())
}

pub fn run(run: &mut Run) -> &'static str {
    let cases = run.tier.pick(480_000, 4_000_000);
    run.proptest_part("walks", RULE, pos_case(4..160), cases, |case: &PosCase, st: &mut Stats| {
        let ps = case.positions(Mix::General, 40, st);
        for (i, gp) in ps.iter().enumerate() {
            compare_position(&gp.pos, st, gp.src, true)?;
            // two-ply differential on a sample of positions (children built by the reference model)
            let deep = matches!(case, PosCase::Fen(_)) || (crate::framework::hash_of(&gp.pos.identity()) % 16 == 0 && i % 2 == 0);
            if deep {
                st.class("two_ply");
                for m in gp.pos.legal_moves() {
                    let child = gp.pos.make(&m);
                    compare_position(&child, st, "child", true)?;
                }
            }
        }
        Ok(())
    });
    // every occupancy pattern of every slider line, through the move generator: for a rook / bishop
    // (every eighth pattern: queen) of the side to move on each square and each subset of the squares
    // that matter on its lines (107 648 patterns in all), a legal position with exactly that pattern is
    // built - blockers are pawns and knights of both colours, kings are put where they do not interfere -
    // and its move list is compared. A single wrong entry of the attack tables shows here as a missing or
    // an extra move.
    let lines: Vec<PosCaseLine> = (0..64u8).flat_map(|square| [false, true].into_iter().map(move |diagonal| PosCaseLine::Line { square, diagonal })).collect();
    run.exhaustive_part("slider_line_patterns", RULE, lines, |c: &PosCaseLine, st: &mut Stats| {
        use crate::gen::ray;
        use crate::refchess::{rank_of, Kind, Pc};
        let (square, diagonal) = match c {
            PosCaseLine::Line { square, diagonal } => (*square, *diagonal),
            PosCaseLine::Fen(f) => {
                return match Pos::from_fen(f) {
                    Ok(p) if p.validate().is_ok() => compare_position(&p, st, "replay", true),
                    _ => Ok(()),
                };
            }
        };
        let dirs: [(i32, i32); 4] = if diagonal { [(1, 1), (1, -1), (-1, 1), (-1, -1)] } else { [(1, 0), (-1, 0), (0, 1), (0, -1)] };
        let mut mask: Vec<u8> = vec![];
        for d in dirs {
            let r = ray(square, d);
            if r.len() > 1 {
                mask.extend_from_slice(&r[..r.len() - 1]);
            }
        }
        let n = mask.len();
        for subset in 0u32..(1 << n) {
            let mut p = Pos::empty();
            p.white_to_move = true;
            let h = crate::framework::hash_of(&(square, diagonal, subset));
            let kind = if h % 8 == 0 { Kind::Q } else if diagonal { Kind::B } else { Kind::R };
            p.board[square as usize] = Some(Pc::new(true, kind));
            for (i, q) in mask.iter().enumerate() {
                if subset >> i & 1 == 1 {
                    let white = h >> (8 + i) & 1 == 1;
                    let r = rank_of(*q);
                    p.board[*q as usize] = Some(Pc::new(white, if r == 0 || r == 7 { Kind::N } else { Kind::P }));
                }
            }
            // kings: far from the slider first, where the result is a legal position with White not in
            // check (so that all the slider's moves are there)
            let mut placed = false;
            'kings: for wk in (0..64u8).rev().map(|i| (i as u64 * 37 + h) as u8 % 64) {
                if p.board[wk as usize].is_some() || mask.contains(&wk) {
                    continue;
                }
                for bk in (0..64u8).map(|i| (i as u64 * 29 + (h >> 20)) as u8 % 64) {
                    if bk == wk || p.board[bk as usize].is_some() || mask.contains(&bk) {
                        continue;
                    }
                    p.board[wk as usize] = Some(Pc::new(true, Kind::K));
                    p.board[bk as usize] = Some(Pc::new(false, Kind::K));
                    if p.validate().is_ok() && !p.in_check() {
                        placed = true;
                        break 'kings;
                    }
                    p.board[wk as usize] = None;
                    p.board[bk as usize] = None;
                }
            }
            if !placed {
                st.discard();
                continue;
            }
            compare_position(&p, st, "slider_line_pattern", true).map_err(|f| f.explicit(json!({"Fen": p.to_fen()})))?;
        }
        Ok(())
    });
    // thorough: coverage-guided fuzzing of the position generators' choice tape (libFuzzer), the same
    // differential oracle inside the target; crashing tapes are replayed here in the checked build
    if run.tier == Tier::Thorough && run.replay.is_none() && run.only_parts.is_empty() {
        match run_fuzz("movegen", run.seed, 150_000, 12, 400, &[]) {
            Ok((execs, corpus, crashes)) => {
                run.extra.insert("fuzz".into(), json!({"target": "movegen", "engine": "libFuzzer (cargo-fuzz)", "executions": execs, "corpus_files": corpus, "crashing_inputs": crashes.len(), "jobs": 12}));
                let tapes: Vec<PosCase> = crashes.iter().map(|b| PosCase::Tape(b.chunks(2).map(|c| u16::from_le_bytes([c[0], *c.get(1).unwrap_or(&0)])).collect())).collect();
                if !tapes.is_empty() {
                    run.exhaustive_part("fuzz_crashes", RULE, tapes, |case: &PosCase, st: &mut Stats| {
                        for gp in case.positions(Mix::General, 24, st) {
                            compare_position(&gp.pos, st, gp.src, true)?;
                        }
                        Ok(())
                    });
                }
            }
            Err(e) => {
                println!("note: fuzz campaign skipped: {e}");
                run.extra.insert("fuzz".into(), json!({"skipped": e}));
            }
        }
    }
    RULE
}
