//! C17 The position command reproduces the game exactly.
use super::ucilib::*;
use crate::adapter::*;
use crate::engine::uci::commands::{Position, UciCommand};
use crate::engine::uci::parser;
use crate::framework::*;
use crate::gen::{self, Mix};
use crate::refchess::{Kind, Mv, Pos};
use proptest::strategy::Strategy;
use serde::{Deserialize, Serialize};
use serde_json::json;
use std::cell::RefCell;
use std::time::Duration;

pub const RULE: &str = "legal games from reference-model walks: root = startpos or a generated legal FEN (repository FENs, themes, random placements), 0-250 plies chosen with weights that make castling (both sides, both wings), en passant and all four promotion pieces occur; the text sent is 'position startpos|fen <reference FEN> moves <long algebraic>'. On the shipped binary (one process per worker serves thousands of cases): the 'FEN:' line of 'd fen' must equal the reference FEN of the final position; the move set printed by 'd perftdiv 1' must equal the reference legal moves in long algebraic form (lower-case promotion letter, castling as the king's two-square move); 'go depth 1' ('go movetime 20' when the material exceeds the initial one by two queens' worth or more) must answer with a member of that set; a search that stays silent for 60 s is not judged by this check. End of output or a panic line is a violation with the session as replay. In-process: parser::parse of the same line must yield the same (from, to, promotion) triples, and every legal reply of the final position must be printed identically to the reference long-algebraic text by UciMove::notation (bestmove, pv) and by Move's Debug form (perftdiv). One case in twelve is preceded, in the same process, by a position command whose start position is a different legal position with the same 64-bit key (constructed by elimination over the key words) and whose move list begins alike. Non-trivial = game containing castling, en passant or a promotion; distinct by command text.";

#[derive(Serialize, Deserialize, Clone, Debug)]
pub enum Case {
    Tape(Vec<u16>),
    Explicit {
        root: Option<String>,
        moves: Vec<String>,
        /// a command sent to the same process just before (its answer is not examined)
        #[serde(default)]
        prelude: Option<String>,
    },
}

thread_local! {
    static ENGINE: RefCell<Option<Engine>> = const { RefCell::new(None) };
}

struct Game17 {
    root: Option<String>,
    moves: Vec<String>,
    finalpos: Pos,
    castles: u32,
    eps: u32,
    promos: [u32; 4],
    prelude: Option<String>,
}

/// Two consecutive position commands whose start positions are different but have the same 64-bit key
/// (constructed, see collide.rs) and whose move lists begin alike: the second command must still set
/// up its own game.
fn collision_case(t: &mut Tape) -> Option<Game17> {
    let base = super::collide::kings_base(t);
    let pair = super::collide::full_collision_pair(t, &base)?;
    let (a, b) = if t.pick(2) == 0 { (pair.a, pair.b) } else { (pair.b, pair.a) };
    let la: Vec<String> = a.legal_moves().iter().map(Mv::uci).collect();
    let common: Vec<Mv> = b.legal_moves().into_iter().filter(|m| la.contains(&m.uci())).collect();
    if common.is_empty() {
        return None;
    }
    let m = common[t.pick(common.len())];
    let mut g = Game17 { root: Some(b.to_fen()), moves: vec![m.uci()], finalpos: b.make(&m), castles: 0, eps: 0, promos: [0; 4], prelude: Some(format!("position fen {} moves {}", a.to_fen(), m.uci())) };
    for _ in 0..t.pick(3) {
        let legal = g.finalpos.legal_moves();
        if legal.is_empty() {
            break;
        }
        let m2 = legal[t.pick(legal.len())];
        g.moves.push(m2.uci());
        g.finalpos = g.finalpos.make(&m2);
    }
    Some(g)
}

fn from_tape(data: &[u16]) -> Option<Game17> {
    let mut t = Tape::new(data);
    if t.pick(12) == 0 {
        return collision_case(&mut t);
    }
    let (root, start): (Option<String>, Pos) = if t.pick(3) == 0 {
        (None, Pos::start())
    } else {
        let r = gen::gen_root(&mut t, Mix::General)?;
        (Some(r.pos.to_fen()), r.pos)
    };
    let plies = match t.pick(4) {
        0 => t.pick(6),
        1 => t.pick(40),
        2 => t.pick(120),
        _ => t.pick(251),
    };
    let mut g = Game17 { root, moves: vec![], finalpos: start, castles: 0, eps: 0, promos: [0; 4], prelude: None };
    for _ in 0..plies {
        let legal = g.finalpos.legal_moves();
        if legal.is_empty() {
            break;
        }
        let i = if t.pick(5) == 0 { t.pick(legal.len()) } else { gen::pick_weighted(&mut t, &g.finalpos, &legal) };
        let m = legal[i];
        record(&mut g, &m);
        g.moves.push(m.uci());
        g.finalpos = g.finalpos.make(&m);
    }
    Some(g)
}

fn record(g: &mut Game17, m: &Mv) {
    if m.castle {
        g.castles += 1;
    }
    if m.ep {
        g.eps += 1;
    }
    if let Some(k) = m.promo {
        g.promos[k.idx() - 1] += 1;
    }
}

fn from_explicit(root: &Option<String>, moves: &[String]) -> Option<Game17> {
    let start = match root {
        None => Pos::start(),
        Some(f) => {
            let p = Pos::from_fen(f).ok()?;
            p.validate().ok()?;
            p
        }
    };
    let mut g = Game17 { root: root.clone(), moves: vec![], finalpos: start, castles: 0, eps: 0, promos: [0; 4], prelude: None };
    for t in moves {
        let m = g.finalpos.legal_moves().into_iter().find(|m| &m.uci() == t)?;
        record(&mut g, &m);
        g.moves.push(t.clone());
        g.finalpos = g.finalpos.make(&m);
    }
    Some(g)
}

fn command(g: &Game17) -> String {
    let mut s = match &g.root {
        None => "position startpos".to_string(),
        // the two counters are optional in the engine's grammar: when they have their default
        // values, every other such root is sent in the four-field form
        Some(f) if f.ends_with(" 0 1") && crate::framework::hash_of(f) % 2 == 0 => format!("position fen {}", &f[..f.len() - 4]),
        Some(f) => format!("position fen {f}"),
    };
    if !g.moves.is_empty() {
        s.push_str(" moves ");
        s.push_str(&g.moves.join(" "));
    }
    s
}

fn check(g: &Game17, st: &mut Stats) -> Result<(), Fail> {
    st.eval();
    let cmd = command(g);
    let ex = || json!({"Explicit": {"root": g.root, "moves": g.moves, "prelude": g.prelude}});
    st.class_n("castling_moves", g.castles as u64);
    st.class_n("en_passant_captures", g.eps as u64);
    for (i, n) in ["promotion_n", "promotion_b", "promotion_r", "promotion_q"].iter().enumerate() {
        st.class_n(n, g.promos[i] as u64);
    }
    if g.moves.len() >= 100 {
        st.class("games_of_100_plies_or_more");
    }
    if g.castles + g.eps + g.promos.iter().sum::<u32>() > 0 {
        st.nontrivial(&cmd);
        if st.want_nontrivial_sample() {
            st.nontrivial_sample(json!({"command": cmd, "final_fen": g.finalpos.to_fen()}));
        }
    } else if st.want_sample() {
        st.sample(json!({"command": cmd, "final_fen": g.finalpos.to_fen()}));
    }
    // in-process: every legal reply of the final position is printed in long algebraic form by both
    // printers the engine uses (UciMove::notation for bestmove / pv, Debug for Move for perftdiv)
    {
        let eg = to_game(&g.finalpos);
        for m in g.finalpos.legal_moves() {
            if let Some(em) = find_move(&eg, &m) {
                let via_uci = crate::engine::uci::UciMove::from(em).notation();
                let via_debug = format!("{em:?}");
                if via_uci != m.uci() || via_debug != m.uci() {
                    return Err(Fail::new("printer:move_text", format!("at {} the move {} is printed as '{via_uci}' (bestmove / pv) and '{via_debug}' (perftdiv)", g.finalpos.to_fen(), m.uci())).explicit(ex()));
                }
                if m.promo.is_some() {
                    st.class("promotion_reply_text_checked");
                }
            }
        }
    }
    // in-process: the parser reads the same triples
    match parser::parse(&cmd) {
        Ok(UciCommand::Position { position, moves }) => {
            let ok_pos = match (&g.root, &position) {
                (None, Position::StartPos) => true,
                (Some(f), Position::Fen(x)) => f == x || (f.ends_with(" 0 1") && &f[..f.len() - 4] == x.as_str()),
                _ => false,
            };
            if !ok_pos {
                return Err(Fail::new("parser:position_argument", format!("parser::parse reads the position argument of '{cmd}' as {position:?}")).explicit(ex()));
            }
            let got: Vec<String> = moves.iter().map(|m| m.notation()).collect();
            if got != g.moves {
                return Err(Fail::new("parser:moves", format!("parser::parse reads the moves of '{cmd}' as {got:?}")).explicit(ex()));
            }
        }
        other => return Err(Fail::new("parser:rejects", format!("parser::parse('{cmd}') = {other:?}")).explicit(ex())),
    }
    if !engine_available() {
        return Ok(());
    }
    // shipped binary
    ENGINE.with(|cell| -> Result<(), Fail> {
        let mut slot = cell.borrow_mut();
        if slot.is_none() {
            let mut e = Engine::spawn(&[]).map_err(|e| Fail::new("binary:io", e))?;
            let _ = e.send("setoption name Hash value 1");
            *slot = Some(e);
        }
        let e = slot.as_mut().unwrap();
        let died = |e: &Engine, what: &str| -> Fail {
            let tail: Vec<String> = e.transcript.iter().rev().take(6).rev().cloned().collect();
            Fail::new("binary:engine_died_or_silent", format!("after '{cmd}': {what}; last lines: {tail:?}")).explicit(ex())
        };
        let r = (|| -> Result<(), Fail> {
            e.transcript.clear();
            if let Some(pre) = &g.prelude {
                st.class("preceded_by_a_position_command_whose_start_position_has_the_same_key");
                e.send(pre).map_err(|x| died(e, &x))?;
            }
            e.send(&cmd).map_err(|x| died(e, &x))?;
            e.send("d fen").map_err(|x| died(e, &x))?;
            // board picture, then "FEN: ..." then empty line
            let mut fen_line = None;
            loop {
                match e.read_line(Duration::from_secs(20)) {
                    Ok(Some(l)) => {
                        if let Some(f) = l.strip_prefix("FEN: ") {
                            fen_line = Some(f.to_string());
                        } else if l.contains("panic") {
                            return Err(died(e, &format!("panic line: {l}")));
                        } else if l.is_empty() && fen_line.is_some() {
                            break;
                        }
                    }
                    Ok(None) => return Err(died(e, "end of output")),
                    Err(x) => return Err(died(e, &x)),
                }
            }
            let want = g.finalpos.to_fen();
            let got = fen_line.unwrap();
            if got != want {
                return Err(Fail::new("position:fen_differs", format!("after '{cmd}' the engine's position is {got}, the rules give {want}")).explicit(ex()));
            }
            e.send("d perftdiv 1").map_err(|x| died(e, &x))?;
            let mut moves: Vec<String> = vec![];
            loop {
                match e.read_line(Duration::from_secs(20)) {
                    Ok(Some(l)) => {
                        if l.starts_with("total:") {
                            continue;
                        } else if l.is_empty() {
                            break;
                        } else if l.contains("panic") {
                            return Err(died(e, &format!("panic line: {l}")));
                        } else if let Some((m, _)) = l.split_once(':') {
                            moves.push(m.trim().to_string());
                        }
                    }
                    Ok(None) => return Err(died(e, "end of output")),
                    Err(x) => return Err(died(e, &x)),
                }
            }
            let mut want_moves: Vec<String> = g.finalpos.legal_moves().iter().map(Mv::uci).collect();
            want_moves.sort();
            moves.sort();
            if moves != want_moves {
                return Err(Fail::new("position:replies_differ", format!("after '{cmd}' the engine considers {moves:?}, the legal replies are {want_moves:?}")).explicit(ex()));
            }
            if !want_moves.is_empty() {
                // positions full of queens can keep even a one-ply search busy for minutes (capture
                // storms in quiescence); how long a search takes is not this property's business, so
                // those get a short fixed move time, and a search that stays silent is not judged here
                let go = if super::searchlib::heavy_extra(&g.finalpos) >= 4 { "go movetime 20" } else { "go depth 1" };
                e.send(go).map_err(|x| died(e, &x))?;
                loop {
                    match e.read_line(Duration::from_secs(60)) {
                        Ok(Some(l)) => {
                            if let Some(rest) = l.strip_prefix("bestmove ") {
                                let mv = rest.split_whitespace().next().unwrap_or("");
                                if !want_moves.iter().any(|m| m == mv) {
                                    return Err(Fail::new("position:bestmove_not_a_reply", format!("after '{cmd}', go depth 1 answers '{l}', not one of {want_moves:?}")).explicit(ex()));
                                }
                                break;
                            } else if l.contains("panic") {
                                return Err(died(e, &format!("panic line: {l}")));
                            }
                        }
                        Ok(None) => return Err(died(e, "end of output")),
                        Err(x) if x.contains("no output") => {
                            st.class("search_silent_for_60s(not_judged_here)");
                            return Err(Fail::new("NOT_JUDGED", String::new()));
                        }
                        Err(x) => return Err(died(e, &x)),
                    }
                }
            }
            Ok(())
        })();
        if r.is_err() {
            // start from a clean process next time
            if let Some(mut dead) = slot.take() {
                dead.kill();
            }
        }
        match r {
            Err(f) if f.signature == "NOT_JUDGED" => Ok(()),
            r => r,
        }
    })
}

pub fn run(run: &mut Run) -> &'static str {
    let tier = run.tier;
    let cases = tier.pick(120_000, 1_500_000);
    run.watchdog_secs = Some(300);
    let strat = tape(8..520).prop_map(Case::Tape);
    run.proptest_part("games", RULE, strat, cases, |c: &Case, st: &mut Stats| {
        let g = match c {
            Case::Tape(t) => from_tape(t),
            Case::Explicit { root, moves, prelude } => from_explicit(root, moves).map(|mut g| {
                g.prelude = prelude.clone();
                g
            }),
        };
        match g {
            Some(g) => check(&g, st),
            None => {
                st.discard();
                Ok(())
            }
        }
    });
    if !engine_available() {
        run.assume("engine binary not available: only the parser twin was checked");
    }
    RULE
}
