//! Glue between the cargo-fuzz targets (coverage-guided, libFuzzer) and the property oracles. The
//! bytes of a fuzz input are a choice tape for the same deterministic builders the proptest parts use,
//! so a crashing input is replayed by the property's own part in the checked build.
use super::hist::{interpret, Config, HistCase, Observer, Op};
use crate::chess::game::Game;
use crate::framework::*;
use crate::gen::{gen_walk, Mix};
use crate::refchess::Pos;
use serde_json::json;

pub fn tape_of_bytes(data: &[u8]) -> Vec<u16> {
    data.chunks(2).map(|c| u16::from_le_bytes([c[0], *c.get(1).unwrap_or(&0)])).collect()
}

/// C02 + C03 + C15 invariants after every op of one history.
struct All {
    c02: Box<dyn Observer>,
}

impl Observer for All {
    fn at_root(&mut self, g: &Game, pos: &Pos, st: &mut Stats) -> Result<(), Fail> {
        self.c02.at_root(g, pos, st)?;
        super::c03::check_key(g, pos)?;
        super::c15::check_incremental(g, pos)
    }
    fn before_op(&mut self, g: &Game, pos: &Pos, op: &Op) {
        self.c02.before_op(g, pos, op);
    }
    fn after_op(&mut self, g: &Game, pos: &Pos, op: &Op, stack: &[Pos], st: &mut Stats) -> Result<(), Fail> {
        self.c02.after_op(g, pos, op, stack, st)?;
        super::c03::check_key(g, pos)?;
        super::c15::check_incremental(g, pos)
    }
}

/// One history from a tape under the search-like op mix; all three history oracles.
pub fn histories(tape: &[u16]) -> Result<(), Fail> {
    let mut st = Stats::default();
    let mut obs = All { c02: super::c02::observer() };
    interpret(&HistCase::Tape(tape.to_vec()), &Config::search_like(60), &mut st, &mut obs).map(|_| ())
}

/// Every position of one walk through the SAN (C18), exchange (C20) and evaluation (C16) oracles.
pub fn positions(tape: &[u16]) -> Result<(), Fail> {
    let mut st = Stats::default();
    let mut t = Tape::new(tape);
    for gp in gen_walk(&mut t, Mix::General, 16) {
        super::c18::check_position(&gp.pos, &mut st)?;
        super::c20::check_position(&gp.pos, &mut st)?;
        super::c16::check_position(&gp.pos, &mut st)?;
    }
    Ok(())
}

/// Thorough tier only: run a coverage-guided campaign of `target`, record it in the evidence and hand
/// the crashing tapes (if any) to `replay`, which judges them with the property's own oracle.
pub fn campaign(run: &mut Run, target: &str, runs_per_job: u64, jobs: usize, max_len: usize) -> Vec<Vec<u16>> {
    if run.tier != Tier::Thorough || run.replay.is_some() || !run.only_parts.is_empty() {
        return vec![];
    }
    match run_fuzz(target, run.seed, runs_per_job, jobs, max_len, &[]) {
        Ok((execs, corpus, crashes)) => {
            run.extra.insert(
                "fuzz".into(),
                json!({"target": target, "engine": "libFuzzer (cargo-fuzz)", "executions": execs, "corpus_files": corpus, "crashing_inputs": crashes.len(), "jobs": jobs}),
            );
            crashes.iter().map(|b| tape_of_bytes(b)).collect()
        }
        Err(e) => {
            println!("note: fuzz campaign skipped: {e}");
            run.extra.insert("fuzz".into(), json!({"skipped": e}));
            vec![]
        }
    }
}
