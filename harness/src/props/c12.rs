//! C12 Same state, same search; ucinewgame means a fresh engine.
use super::searchlib::*;
use super::ucilib::*;
use crate::engine::search::PersistentState;
use crate::framework::*;
use proptest::strategy::Strategy;
use serde::{Deserialize, Serialize};
use serde_json::json;

pub const RULE: &str = "case = (hash 0/1/2/3/16 MB, a list S of 0-5 earlier depth-limited searches of related or unrelated games, a main game with history, depth 1-8). In-process (both build profiles, 16 workers busy at once): (a) the main search run twice from identically prepared states (fresh, and fresh + S) must give identical traces - every reported depth, seldepth, score, PV, node count, hashfull, tbhits and the best move; (b) fresh + S followed by PersistentState::reset() must give the trace of a fresh state. Long sessions of exactly 255/256/257/511/512 shallow searches followed by reset() must also equal a fresh state. On the shipped binary: (c) the session [setoption Hash h, S.. interleaved with stop (after a search has ended), go infinite / go movetime + stop, isready, earlier ucinewgame and repeated setoption, then ucinewgame, position p, go depth d] must print the same info/bestmove lines, with time and nps removed, as a fresh process given [setoption Hash h, position p, go depth d]. Thorough: the bench node total of two concurrently running processes must agree. Non-trivial = S non-empty with at least one search of depth >= 5; distinct by case.";

#[derive(Serialize, Deserialize, Clone, Debug)]
pub enum Case {
    Tape(Vec<u16>),
    Explicit { hash_mb: usize, priors: Vec<SearchSpec>, main: SearchSpec },
}

fn from_tape(data: &[u16], tier: Tier, max_depth: u8) -> Option<(usize, Vec<SearchSpec>, SearchSpec)> {
    let mut t = Tape::new(data);
    let hash_mb = pick_hash(&mut t, tier).min(16);
    let (fen, moves, final_pos, _) = gen_game(&mut t, 2, 10)?;
    let main = SearchSpec { fen: fen.clone(), moves: moves.clone(), limit: Limit::Depth(1 + t.pick(max_depth as usize) as u8) };
    let n = t.pick(6);
    let mut priors = vec![];
    for _ in 0..n {
        let (f, m) = match t.pick(4) {
            3 => {
                // a look-alike of the position that will be searched in the end: the same squares with
                // the colours exchanged in place, the colour-mirrored twin, the other side to move, or one
                // man of another kind - whatever an earlier search remembers under a partial description
                // of a position (occupied squares, pawn squares, part of the key) is then met again
                let mut q = final_pos.clone();
                match t.pick(4) {
                    0 => {
                        for s in 0..64 {
                            if let Some(pc) = q.board[s] {
                                q.board[s] = Some(crate::refchess::Pc::new(!pc.white, pc.kind));
                            }
                        }
                        q.white_to_move = !q.white_to_move;
                        q.castle = [false; 4];
                        q.ep = None;
                    }
                    1 => q = q.mirror(),
                    2 => {
                        q.white_to_move = !q.white_to_move;
                        q.ep = None;
                    }
                    _ => {
                        let men: Vec<usize> = (0..64).filter(|s| q.board[*s].map_or(false, |pc| pc.kind != crate::refchess::Kind::K && pc.kind != crate::refchess::Kind::P)).collect();
                        if !men.is_empty() {
                            let s = men[t.pick(men.len())];
                            let pc = q.board[s].unwrap();
                            let kinds = [crate::refchess::Kind::N, crate::refchess::Kind::B, crate::refchess::Kind::R, crate::refchess::Kind::Q];
                            q.board[s] = Some(crate::refchess::Pc::new(pc.white, kinds[t.pick(4)]));
                        }
                    }
                }
                if q.validate().is_err() || q.legal_moves().is_empty() {
                    continue;
                }
                (q.to_fen(), vec![])
            }
            0 => {
                let mut mv = moves.clone();
                mv.truncate(t.pick(moves.len() + 1));
                (fen.clone(), mv)
            }
            1 => (fen.clone(), moves.clone()),
            _ => {
                let (f, m, _, _) = gen_game(&mut t, 2, 8)?;
                (f, m)
            }
        };
        priors.push(SearchSpec { fen: f, moves: m, limit: Limit::Depth(1 + t.pick(max_depth as usize) as u8) });
    }
    let mut main = main;
    tame(&mut main);
    for p in priors.iter_mut() {
        tame(p);
    }
    Some((hash_mb, priors, main))
}

type Trace = (Vec<String>, String);

fn trace(state: &mut PersistentState, spec: &SearchSpec) -> Result<Option<Trace>, Fail> {
    let Some((pos, game)) = build(spec) else { return Ok(None) };
    if pos.legal_moves().is_empty() {
        return Ok(None);
    }
    let out = run_search(&game, state, &spec.limit, 0).map_err(|pm| Fail::new(&format!("search_panic:{}", panic_signature(&pm)), format!("search at {} panicked: {pm}", pos.to_fen())))?;
    Ok(Some((out.infos.iter().map(InfoRec::text).collect(), format!("{:?}", out.best))))
}

fn first_difference(a: &Trace, b: &Trace) -> String {
    for (i, (x, y)) in a.0.iter().zip(b.0.iter()).enumerate() {
        if x != y {
            return format!("line {}: '{x}' vs '{y}'", i + 1);
        }
    }
    if a.0.len() != b.0.len() {
        return format!("{} vs {} reported lines", a.0.len(), b.0.len());
    }
    format!("best move {} vs {}", a.1, b.1)
}

fn run_case(hash_mb: usize, priors: &[SearchSpec], main: &SearchSpec, st: &mut Stats) -> Result<(), Fail> {
    let ex = || json!({"Explicit": {"hash_mb": hash_mb, "priors": priors, "main": main}});
    st.eval();
    let run_priors = |state: &mut PersistentState| -> Result<(), Fail> {
        for p in priors {
            trace(state, p)?;
        }
        Ok(())
    };
    let deep = priors.iter().any(|p| matches!(p.limit, Limit::Depth(d) if d >= 5));
    // fresh, twice
    let mut s1 = PersistentState::new(hash_mb);
    let Some(fresh1) = trace(&mut s1, main).map_err(|f| f.explicit(ex()))? else { return Ok(()) };
    let mut s2 = PersistentState::new(hash_mb);
    let fresh2 = trace(&mut s2, main).map_err(|f| f.explicit(ex()))?.unwrap();
    if fresh1 != fresh2 {
        return Err(Fail::new("nondeterministic:fresh_state", format!("two searches of {} moves {:?} from fresh states differ: {}", main.fen, main.moves, first_difference(&fresh1, &fresh2))).explicit(ex()));
    }
    if !priors.is_empty() {
        // same table contents, twice
        let mut a = PersistentState::new(hash_mb);
        run_priors(&mut a).map_err(|f| f.explicit(ex()))?;
        let ta = trace(&mut a, main).map_err(|f| f.explicit(ex()))?.unwrap();
        let mut b = PersistentState::new(hash_mb);
        run_priors(&mut b).map_err(|f| f.explicit(ex()))?;
        let tb = trace(&mut b, main).map_err(|f| f.explicit(ex()))?.unwrap();
        if ta != tb {
            return Err(Fail::new("nondeterministic:same_table_contents", format!("two searches of {} moves {:?} after the same {} earlier searches differ: {}", main.fen, main.moves, priors.len(), first_difference(&ta, &tb))).explicit(ex()));
        }
        if ta != fresh1 {
            st.class("table_contents_change_the_trace");
        }
        // reset == fresh
        let mut c = PersistentState::new(hash_mb);
        run_priors(&mut c).map_err(|f| f.explicit(ex()))?;
        c.reset();
        let tc = trace(&mut c, main).map_err(|f| f.explicit(ex()))?.unwrap();
        if tc != fresh1 {
            return Err(Fail::new("reset_not_fresh", format!("after {} earlier searches and reset(), the search of {} moves {:?} differs from a fresh state: {}", priors.len(), main.fen, main.moves, first_difference(&tc, &fresh1))).explicit(ex()));
        }
    }
    if !priors.is_empty() {
        // the Hash option changed between the games (setoption resizes the table, ucinewgame resets):
        // still a fresh engine of the new size
        let other = if hash_mb >= 16 { hash_mb - 1 } else { hash_mb + 1 + priors.len() % 2 };
        let mut d = PersistentState::new(other);
        run_priors(&mut d).map_err(|f| f.explicit(ex()))?;
        d.tt.resize(hash_mb);
        d.reset();
        let td = trace(&mut d, main).map_err(|f| f.explicit(ex()))?.unwrap();
        st.class("hash_resized_before_the_new_game");
        if td != fresh1 {
            return Err(Fail::new("reset_not_fresh:after_resize", format!("after {} earlier searches with Hash {other}, a resize to {hash_mb} MB and reset(), the search of {} moves {:?} differs from a fresh state: {}", priors.len(), main.fen, main.moves, first_difference(&td, &fresh1))).explicit(ex()));
        }
    }
    if deep {
        st.nontrivial(&format!("{hash_mb} {priors:?} {main:?}"));
        if st.want_nontrivial_sample() {
            st.nontrivial_sample(json!({"hash_mb": hash_mb, "earlier_searches": priors.len(), "main": main, "lines": fresh1.0.len(), "last": fresh1.0.last()}));
        }
    } else if st.want_sample() {
        st.sample(json!({"hash_mb": hash_mb, "earlier_searches": priors.len(), "main": main}));
    }
    Ok(())
}

fn strip(line: &str) -> String {
    // remove "time N" and "nps N" fields
    let toks: Vec<&str> = line.split_whitespace().collect();
    let mut out = vec![];
    let mut i = 0;
    while i < toks.len() {
        if (toks[i] == "time" || toks[i] == "nps") && i + 1 < toks.len() {
            i += 2;
            continue;
        }
        out.push(toks[i]);
        i += 1;
    }
    out.join(" ")
}

fn position_cmd(s: &SearchSpec) -> String {
    if s.moves.is_empty() {
        format!("position fen {}", s.fen)
    } else {
        format!("position fen {} moves {}", s.fen, s.moves.join(" "))
    }
}

fn go_and_collect(e: &mut Engine, s: &SearchSpec) -> Result<Vec<String>, String> {
    let Limit::Depth(d) = s.limit else { return Err("depth only".into()) };
    e.send(&position_cmd(s))?;
    e.send(&format!("go depth {d}"))?;
    let mut lines = vec![];
    loop {
        let l = e.read_line(std::time::Duration::from_secs(120))?.ok_or("engine closed its output")?;
        if l.starts_with("info ") {
            lines.push(strip(&l));
        } else if l.starts_with("bestmove") {
            lines.push(l);
            return Ok(lines);
        } else if l.contains("panic") {
            return Err(format!("engine panicked: {l}"));
        }
    }
}

/// What may happen in a session before the final ucinewgame.
#[derive(Serialize, Deserialize, Clone, Debug)]
pub enum BStep {
    Search(SearchSpec),
    /// a stop sent although no search is running any more
    Stop,
    /// go infinite / go movetime 5000 on this game, stop after the delay
    StoppedSearch { spec: SearchSpec, infinite: bool, delay_ms: u32 },
    IsReady,
    NewGame,
    SetHash(usize),
}

#[derive(Serialize, Deserialize, Clone, Debug)]
pub enum BinCase {
    Tape(Vec<u16>),
    Explicit { hash_mb: usize, steps: Vec<BStep>, main: SearchSpec },
}

fn bin_from_tape(data: &[u16], tier: Tier, max_depth: u8) -> Option<(usize, Vec<BStep>, SearchSpec)> {
    let (hash_mb, priors, main) = from_tape(data, tier, max_depth)?;
    // a second tape reading (reversed) decides what is interleaved with the earlier searches
    let rev: Vec<u16> = data.iter().rev().copied().collect();
    let mut t = Tape::new(&rev);
    let mut steps = vec![];
    for p in priors {
        match t.pick(6) {
            0 => steps.push(BStep::StoppedSearch { spec: p, infinite: t.pick(2) == 0, delay_ms: [0u32, 1, 5, 20, 60][t.pick(5)] }),
            _ => steps.push(BStep::Search(p)),
        }
        match t.pick(8) {
            0 | 1 => steps.push(BStep::Stop),
            2 => steps.push(BStep::IsReady),
            3 => steps.push(BStep::NewGame),
            4 => steps.push(BStep::SetHash(hash_mb)),
            _ => {}
        }
    }
    Some((hash_mb, steps, main))
}

fn await_bestmove(e: &mut Engine) -> Result<(), String> {
    loop {
        let l = e.read_line(std::time::Duration::from_secs(120))?.ok_or("engine closed its output")?;
        if l.starts_with("bestmove") {
            return Ok(());
        } else if l.contains("panic") {
            return Err(format!("engine panicked: {l}"));
        }
    }
}

fn run_binary_session(hash_mb: usize, steps: &[BStep], main: &SearchSpec, st: &mut Stats) -> Result<(), Fail> {
    let ex = || json!({"Explicit": {"hash_mb": hash_mb, "steps": steps, "main": main}});
    if build(main).map_or(true, |(p, _)| p.legal_moves().is_empty()) {
        return Ok(());
    }
    st.eval();
    let infra_err = |e: String| Fail::new("binary:io", format!("engine process: {e}"));
    let searchable = |s: &SearchSpec| build(s).map_or(false, |(p, _)| !p.legal_moves().is_empty());
    let mut used = Engine::spawn(&[]).map_err(infra_err)?;
    used.send(&format!("setoption name Hash value {hash_mb}")).map_err(infra_err)?;
    let mut deep = false;
    let mut stop_after_end = false;
    for step in steps {
        let r: Result<(), String> = (|| match step {
            BStep::Search(p) => {
                if !searchable(p) {
                    return Ok(());
                }
                if matches!(p.limit, Limit::Depth(d) if d >= 5) {
                    deep = true;
                }
                go_and_collect(&mut used, p).map(|_| ())
            }
            BStep::Stop => {
                stop_after_end = true;
                used.send("stop")
            }
            BStep::StoppedSearch { spec, infinite, delay_ms } => {
                if !searchable(spec) {
                    return Ok(());
                }
                used.send(&position_cmd(spec))?;
                used.send(if *infinite { "go infinite" } else { "go movetime 5000" })?;
                std::thread::sleep(std::time::Duration::from_millis(*delay_ms as u64));
                used.send("stop")?;
                deep = true;
                await_bestmove(&mut used)
            }
            BStep::IsReady => {
                used.send("isready")?;
                loop {
                    let l = used.read_line(std::time::Duration::from_secs(60))?.ok_or("engine closed its output")?;
                    if l == "readyok" {
                        return Ok(());
                    }
                }
            }
            BStep::NewGame => used.send("ucinewgame"),
            BStep::SetHash(h) => used.send(&format!("setoption name Hash value {h}")),
        })();
        r.map_err(|e| Fail::new("binary:earlier_step_failed", format!("{step:?}: {e}")).explicit(ex()))?;
    }
    used.send("ucinewgame").map_err(infra_err)?;
    // a quarter of the sessions do not send a position after ucinewgame: a new game starts from the
    // initial position, exactly like a fresh engine that is told to go at once
    let bare = crate::framework::hash_of(&format!("{steps:?}{main:?}")) % 4 == 0;
    let start_spec = SearchSpec { fen: crate::refchess::START_FEN.to_string(), moves: vec![], limit: main.limit.clone() };
    let collect = |e: &mut Engine| -> Result<Vec<String>, String> {
        if bare {
            let Limit::Depth(d) = main.limit else { return Err("depth only".into()) };
            e.send(&format!("go depth {d}"))?;
            let mut lines = vec![];
            loop {
                let l = e.read_line(std::time::Duration::from_secs(120))?.ok_or("engine closed its output")?;
                if l.starts_with("info ") {
                    lines.push(strip(&l));
                } else if l.starts_with("bestmove") {
                    lines.push(l);
                    return Ok(lines);
                } else if l.contains("panic") {
                    return Err(format!("engine panicked: {l}"));
                }
            }
        } else {
            go_and_collect(e, main)
        }
    };
    let _ = &start_spec;
    let a = collect(&mut used).map_err(|e| Fail::new("binary:search_failed", e).explicit(ex()))?;
    used.quit();
    let mut fresh = Engine::spawn(&[]).map_err(infra_err)?;
    fresh.send(&format!("setoption name Hash value {hash_mb}")).map_err(infra_err)?;
    let b = collect(&mut fresh).map_err(|e| Fail::new("binary:search_failed", e).explicit(ex()))?;
    fresh.quit();
    if bare {
        st.class("go_without_position_after_ucinewgame");
    }
    if a != b {
        let diff = a.iter().zip(b.iter()).find(|(x, y)| x != y).map(|(x, y)| format!("'{x}' vs '{y}'")).unwrap_or_else(|| format!("{} vs {} lines", a.len(), b.len()));
        return Err(Fail::new("ucinewgame_not_fresh", format!("after {} earlier steps and ucinewgame the engine answers differently from a fresh process ({} {:?}{}): {diff}", steps.len(), main.fen, main.limit, if bare { ", go without a position command" } else { "" })).explicit(ex()));
    }
    if stop_after_end {
        st.class("stop_sent_after_a_search_had_ended");
    }
    if steps.iter().any(|s| matches!(s, BStep::StoppedSearch { .. })) {
        st.class("search_ended_by_stop");
    }
    if deep {
        st.nontrivial(&format!("{hash_mb} {steps:?} {main:?}"));
        if st.want_nontrivial_sample() {
            st.nontrivial_sample(json!({"hash_mb": hash_mb, "steps": steps.len(), "main": main, "answer": a.last()}));
        }
    }
    Ok(())
}

#[allow(dead_code)]
fn run_binary_case(hash_mb: usize, priors: &[SearchSpec], main: &SearchSpec, st: &mut Stats) -> Result<(), Fail> {
    let ex = || json!({"Explicit": {"hash_mb": hash_mb, "priors": priors, "main": main}});
    if build(main).map_or(true, |(p, _)| p.legal_moves().is_empty()) {
        return Ok(());
    }
    st.eval();
    let infra_err = |e: String| Fail::new("binary:io", format!("engine process: {e}"));
    let mut used = Engine::spawn(&[]).map_err(infra_err)?;
    used.send(&format!("setoption name Hash value {hash_mb}")).map_err(infra_err)?;
    for p in priors {
        if build(p).map_or(true, |(pp, _)| pp.legal_moves().is_empty()) {
            continue;
        }
        go_and_collect(&mut used, p).map_err(|e| Fail::new("binary:earlier_search_failed", e).explicit(ex()))?;
    }
    used.send("ucinewgame").map_err(infra_err)?;
    let a = go_and_collect(&mut used, main).map_err(|e| Fail::new("binary:search_failed", e).explicit(ex()))?;
    used.quit();
    let mut fresh = Engine::spawn(&[]).map_err(infra_err)?;
    fresh.send(&format!("setoption name Hash value {hash_mb}")).map_err(infra_err)?;
    let b = go_and_collect(&mut fresh, main).map_err(|e| Fail::new("binary:search_failed", e).explicit(ex()))?;
    fresh.quit();
    if a != b {
        let diff = a.iter().zip(b.iter()).find(|(x, y)| x != y).map(|(x, y)| format!("'{x}' vs '{y}'")).unwrap_or_else(|| format!("{} vs {} lines", a.len(), b.len()));
        return Err(Fail::new("ucinewgame_not_fresh", format!("after {} earlier searches and ucinewgame the engine answers differently from a fresh process ({} depth {:?}): {diff}", priors.len(), main.fen, main.limit)).explicit(ex()));
    }
    if priors.iter().any(|p| matches!(p.limit, Limit::Depth(d) if d >= 5)) {
        st.nontrivial(&format!("{hash_mb} {priors:?} {main:?}"));
        if st.want_nontrivial_sample() {
            st.nontrivial_sample(json!({"hash_mb": hash_mb, "earlier_searches": priors.len(), "main": main, "answer": a.last()}));
        }
    }
    Ok(())
}

pub fn run(run: &mut Run) -> &'static str {
    let tier = run.tier;
    let max_depth = tier.pick(7u8, 8u8);
    run.watchdog_secs = Some(tier.pick(300, 1800));
    let cases = tier.pick(1_200, 20_000);
    let strat = tape(16..160).prop_map(Case::Tape);
    run.proptest_part("in_process", RULE, strat, cases, move |c: &Case, st: &mut Stats| match c {
        Case::Tape(t) => match from_tape(t, tier, max_depth) {
            Some((h, p, m)) => run_case(h, &p, &m, st),
            None => {
                st.discard();
                Ok(())
            }
        },
        Case::Explicit { hash_mb, priors, main } => run_case(*hash_mb, priors, main, st),
    });
    // long sessions: exactly 255 / 256 / 257 / 511 / 512 shallow searches (the table's search counter
    // is 8 bits wide), then reset(): must still be a fresh engine
    let cases = tier.pick(48, 600);
    let strat = tape(16..80).prop_map(Case::Tape);
    run.proptest_part("long_session_reset", RULE, strat, cases, move |c: &Case, st: &mut Stats| {
        let Case::Tape(data) = c else { return Ok(()) };
        let mut t = Tape::new(data);
        let hash_mb = [1usize, 1, 2, 0][t.pick(4)];
        let n = [255usize, 256, 256, 257, 511, 512, 300][t.pick(7)];
        let Some((fen, moves, _, _)) = gen_game(&mut t, 1, 6) else {
            st.discard();
            return Ok(());
        };
        let mut main = SearchSpec { fen: fen.clone(), moves: moves.clone(), limit: Limit::Depth(3 + t.pick(3) as u8) };
        tame(&mut main);
        st.eval();
        let mut fresh = PersistentState::new(hash_mb);
        let Some(want) = trace(&mut fresh, &main)? else { return Ok(()) };
        let mut used = PersistentState::new(hash_mb);
        let shallow = SearchSpec { fen, moves, limit: Limit::Depth(1 + t.pick(2) as u8) };
        for _ in 0..n {
            trace(&mut used, &shallow)?;
        }
        used.reset();
        let got = trace(&mut used, &main)?.unwrap();
        st.class(&format!("searches_before_reset:{n}"));
        st.nontrivial(&format!("{hash_mb} {n} {main:?}"));
        if st.want_nontrivial_sample() {
            st.nontrivial_sample(json!({"hash_mb": hash_mb, "searches_before_reset": n, "main": main}));
        }
        if got != want {
            return Err(Fail::new("reset_not_fresh:long_session", format!("after {n} searches and reset(), the search of {} moves {:?} differs from a fresh state: {}", main.fen, main.moves, first_difference(&got, &want))));
        }
        Ok(())
    });
    if profile_name() == "checked" && engine_available() {
        let cases = tier.pick(160, 3_000);
        let strat = tape(16..160).prop_map(BinCase::Tape);
        run.proptest_part("binary", RULE, strat, cases, move |c: &BinCase, st: &mut Stats| match c {
            BinCase::Tape(t) => match bin_from_tape(t, tier, max_depth.min(6)) {
                Some((h, p, m)) => run_binary_session(h, &p, &m, st),
                None => {
                    st.discard();
                    Ok(())
                }
            },
            BinCase::Explicit { hash_mb, steps, main } => run_binary_session(*hash_mb, steps, main, st),
        });
        if tier == Tier::Thorough && run.replay.is_none() && run.only_parts.is_empty() {
            // bench node totals of two concurrent processes
            let h: Vec<_> = (0..2)
                .map(|_| {
                    std::thread::spawn(|| -> Result<String, String> {
                        let mut e = Engine::spawn(&[])?;
                        e.send("bench")?;
                        loop {
                            let l = e.read_line(std::time::Duration::from_secs(900))?.ok_or("closed")?;
                            if l.contains(" nodes ") && l.contains(" nps") {
                                e.quit();
                                return Ok(l.split_whitespace().next().unwrap_or("").to_string());
                            }
                        }
                    })
                })
                .collect();
            let r: Vec<Result<String, String>> = h.into_iter().map(|j| j.join().unwrap_or(Err("thread".into()))).collect();
            match (&r[0], &r[1]) {
                (Ok(a), Ok(b)) if a == b => {
                    run.extra.insert("bench_nodes_two_concurrent_processes".into(), json!(a));
                }
                (Ok(a), Ok(b)) => {
                    println!("bench node totals differ between two concurrent processes: {a} vs {b}");
                    run.violations.push(Violation { part: "bench".into(), msg: format!("bench node totals differ: {a} vs {b}"), signature: "bench_nondeterministic".into(), replay: "-".into() });
                }
                _ => println!("bench comparison skipped: {r:?}"),
            }
        }
    }
    if let Ok(bin) = std::env::var("VERIF_FAST_BIN") {
        if profile_name() == "checked" && run.only_parts.is_empty() {
            run_sub_process(run, &bin, &["in_process", "long_session_reset"]);
        }
    }
    RULE
}
