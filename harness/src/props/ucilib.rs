//! Driver for the shipped binary: one engine process behind pipes, a reader thread with timestamps.
use std::io::{BufRead, BufReader, Write};
use std::process::{Child, ChildStdin, Command, Stdio};
use std::sync::mpsc::{channel, Receiver, RecvTimeoutError};
use std::time::{Duration, Instant};

pub fn engine_path() -> String {
    std::env::var("TCHERAN_BIN").unwrap_or_else(|_| "/verif/target/engine/release/engine".to_string())
}

pub fn engine_available() -> bool {
    std::path::Path::new(&engine_path()).exists()
}

pub struct Engine {
    pub child: Child,
    stdin: Option<ChildStdin>,
    rx: Receiver<(Instant, String)>,
    pub transcript: Vec<String>,
}

impl Engine {
    /// `env`: extra environment (e.g. TCHERAN_VERIF_DELAYS)
    pub fn spawn(env: &[(&str, String)]) -> Result<Engine, String> {
        let mut cmd = Command::new(engine_path());
        cmd.stdin(Stdio::piped()).stdout(Stdio::piped()).stderr(Stdio::null());
        // the engine writes crash.log next to its executable; keep the working directory harmless
        cmd.current_dir("/tmp");
        for (k, v) in env {
            cmd.env(k, v);
        }
        let mut child = cmd.spawn().map_err(|e| format!("cannot start {}: {e}", engine_path()))?;
        let stdin = child.stdin.take();
        let stdout = child.stdout.take().ok_or("no stdout")?;
        let (tx, rx) = channel();
        std::thread::spawn(move || {
            let r = BufReader::new(stdout);
            for line in r.lines() {
                match line {
                    Ok(l) => {
                        if tx.send((Instant::now(), l)).is_err() {
                            break;
                        }
                    }
                    Err(_) => break,
                }
            }
        });
        Ok(Engine { child, stdin, rx, transcript: vec![] })
    }

    pub fn pid(&self) -> u32 {
        self.child.id()
    }

    pub fn send(&mut self, line: &str) -> Result<(), String> {
        self.transcript.push(format!("> {line}"));
        let s = self.stdin.as_mut().ok_or("stdin closed")?;
        s.write_all(line.as_bytes()).and_then(|_| s.write_all(b"\n")).and_then(|_| s.flush()).map_err(|e| format!("write '{line}': {e}"))
    }

    /// several lines in one write (back-to-back arrival)
    pub fn send_batch(&mut self, lines: &[String]) -> Result<(), String> {
        let mut buf = String::new();
        for l in lines {
            self.transcript.push(format!("> {l}"));
            buf.push_str(l);
            buf.push('\n');
        }
        let s = self.stdin.as_mut().ok_or("stdin closed")?;
        s.write_all(buf.as_bytes()).and_then(|_| s.flush()).map_err(|e| format!("write batch: {e}"))
    }

    /// Ok(Some(line)), Ok(None) on end of output, Err on timeout
    pub fn read_line(&mut self, timeout: Duration) -> Result<Option<String>, String> {
        match self.rx.recv_timeout(timeout) {
            Ok((_, l)) => {
                self.transcript.push(format!("< {l}"));
                Ok(Some(l))
            }
            Err(RecvTimeoutError::Disconnected) => Ok(None),
            Err(RecvTimeoutError::Timeout) => Err(format!("no output for {:?}", timeout)),
        }
    }

    pub fn read_line_stamped(&mut self, timeout: Duration) -> Result<Option<(Instant, String)>, String> {
        match self.rx.recv_timeout(timeout) {
            Ok((t, l)) => {
                self.transcript.push(format!("< {l}"));
                Ok(Some((t, l)))
            }
            Err(RecvTimeoutError::Disconnected) => Ok(None),
            Err(RecvTimeoutError::Timeout) => Err(format!("no output for {:?}", timeout)),
        }
    }

    /// Has the process exited? Some(code) if so.
    pub fn try_exit(&mut self) -> Option<i32> {
        match self.child.try_wait() {
            Ok(Some(s)) => Some(s.code().unwrap_or(-1)),
            _ => None,
        }
    }

    pub fn wait_exit(&mut self, timeout: Duration) -> Option<i32> {
        let t0 = Instant::now();
        loop {
            if let Some(c) = self.try_exit() {
                return Some(c);
            }
            if t0.elapsed() > timeout {
                return None;
            }
            std::thread::sleep(Duration::from_millis(5));
        }
    }

    pub fn quit(&mut self) {
        let _ = self.send("quit");
        if self.wait_exit(Duration::from_secs(5)).is_none() {
            let _ = self.child.kill();
            let _ = self.child.wait();
        }
    }

    pub fn kill(&mut self) {
        let _ = self.child.kill();
        let _ = self.child.wait();
    }

    /// per-thread (tid, state char, cpu ticks) from /proc
    pub fn proc_threads(&self) -> Option<Vec<(u32, char, u64)>> {
        let pid = self.pid();
        let mut out = vec![];
        let dir = std::fs::read_dir(format!("/proc/{pid}/task")).ok()?;
        for t in dir.flatten() {
            let tid: u32 = t.file_name().to_string_lossy().parse().ok()?;
            let Ok(stat) = std::fs::read_to_string(t.path().join("stat")) else { continue };
            let rest = &stat[stat.rfind(')')? + 2..];
            let f: Vec<&str> = rest.split_whitespace().collect();
            let state = f.first().and_then(|s| s.chars().next()).unwrap_or('?');
            let utime: u64 = f.get(11)?.parse().ok()?;
            let stime: u64 = f.get(12)?.parse().ok()?;
            out.push((tid, state, utime + stime));
        }
        Some(out)
    }

    /// (total cpu ticks, all threads sleeping) from /proc: is the process blocked rather than slow?
    pub fn proc_state(&self) -> Option<(u64, bool)> {
        let pid = self.pid();
        let mut ticks = 0u64;
        let mut all_sleeping = true;
        let dir = std::fs::read_dir(format!("/proc/{pid}/task")).ok()?;
        for t in dir.flatten() {
            let stat = std::fs::read_to_string(t.path().join("stat")).ok()?;
            // fields after the closing paren of comm
            let rest = &stat[stat.rfind(')')? + 2..];
            let f: Vec<&str> = rest.split_whitespace().collect();
            let state = f.first().copied().unwrap_or("?");
            if state != "S" && state != "D" {
                all_sleeping = false;
            }
            let utime: u64 = f.get(11)?.parse().ok()?;
            let stime: u64 = f.get(12)?.parse().ok()?;
            ticks += utime + stime;
        }
        Some((ticks, all_sleeping))
    }
}

impl Drop for Engine {
    fn drop(&mut self) {
        if self.try_exit().is_none() {
            let _ = self.child.kill();
            let _ = self.child.wait();
        }
    }
}
