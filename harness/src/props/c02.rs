//! C02 Making and unmaking moves follows the rules and is exactly reversible.
use super::hist::*;
use crate::adapter::*;
use crate::chess::game::Game;
use crate::chess::piece::PieceKind;
use crate::chess::player::Player;
use crate::framework::*;
use crate::refchess::{Kind, Pos};
use serde_json::json;

pub const RULE: &str = "histories: root (repository FEN / constructive theme / random placement) followed by up to N ops chosen from {make a reference-legal move (weighted toward castling, e.p., promotions, rook-square captures), null move where a search may play it, take back}, then fully unwound; after every op the engine position is compared field by field with the reference successor, the three board views are cross-checked, and after every take-back the complete snapshot taken before the matching make must be restored. A 'long_histories' part nests 1100-1500 plies deep (beyond 1024) before unwinding. A second part plays every legal move of every position of a walk once (make, compare, undo, compare). Non-trivial = history with castling, e.p. capture, promotion, capture on a rook home square with the right present, or a null move nested under >= 2 moves; distinct by (root, op list).";

#[derive(Clone, PartialEq, Debug)]
pub struct Snapshot {
    squares: Vec<Option<(bool, u8)>>,
    kinds: [u64; 6],
    colors: [u64; 2],
    white_to_move: bool,
    rights: [bool; 4],
    ep: Option<u8>,
    halfmove: u32,
    plies: u32,
    turn: u32,
    zobrist: u64,
    phase: i16,
    pst: crate::engine::eval::PhasedEval,
    history_len: usize,
    fen: String,
}

pub fn snapshot(g: &Game) -> Snapshot {
    let b = &g.board;
    let [w, bl] = g.castle_rights.inner();
    Snapshot {
        squares: (0..64u8)
            .map(|s| b.piece_at(esq(s)).map(|p| (p.player == Player::White, p.kind as u8)))
            .collect(),
        kinds: [
            b.all_pawns().as_u64(),
            b.all_knights().as_u64(),
            b.all_bishops().as_u64(),
            b.all_rooks().as_u64(),
            b.all_queens().as_u64(),
            b.all_kings().as_u64(),
        ],
        colors: [b.occupancy_for(Player::White).as_u64(), b.occupancy_for(Player::Black).as_u64()],
        white_to_move: g.player == Player::White,
        rights: [w.king_side, w.queen_side, bl.king_side, bl.queen_side],
        ep: g.en_passant_target.map(|s| s.idx()),
        halfmove: g.halfmove_clock,
        plies: g.plies,
        turn: g.turn(),
        zobrist: g.zobrist.0,
        phase: g.incremental_eval.phase_value,
        pst: g.incremental_eval.piece_square_tables,
        history_len: g.history.len(),
        fen: g.to_fen(),
    }
}

fn diff(a: &Snapshot, b: &Snapshot) -> String {
    let mut d = vec![];
    if a.squares != b.squares {
        d.push("squares");
    }
    if a.kinds != b.kinds {
        d.push("kind-bitboards");
    }
    if a.colors != b.colors {
        d.push("colour-bitboards");
    }
    if a.white_to_move != b.white_to_move {
        d.push("player");
    }
    if a.rights != b.rights {
        d.push("castle_rights");
    }
    if a.ep != b.ep {
        d.push("en_passant_target");
    }
    if a.halfmove != b.halfmove {
        d.push("halfmove_clock");
    }
    if a.plies != b.plies || a.turn != b.turn {
        d.push("plies");
    }
    if a.zobrist != b.zobrist {
        d.push("zobrist");
    }
    if a.phase != b.phase || a.pst != b.pst {
        d.push("incremental_eval");
    }
    if a.history_len != b.history_len {
        d.push("history_len");
    }
    if a.fen != b.fen {
        d.push("fen");
    }
    d.join(",")
}

/// (b) the three redundant views agree
pub fn views_consistent(g: &Game) -> Result<(), Fail> {
    let b = &g.board;
    let kinds = [
        (PieceKind::Pawn, b.all_pawns().as_u64()),
        (PieceKind::Knight, b.all_knights().as_u64()),
        (PieceKind::Bishop, b.all_bishops().as_u64()),
        (PieceKind::Rook, b.all_rooks().as_u64()),
        (PieceKind::Queen, b.all_queens().as_u64()),
        (PieceKind::King, b.all_kings().as_u64()),
    ];
    let white = b.occupancy_for(Player::White).as_u64();
    let black = b.occupancy_for(Player::Black).as_u64();
    let fen = g.to_fen();
    if white & black != 0 {
        return Err(Fail::new("views:colours_overlap", format!("{fen}: colour sets overlap")));
    }
    let mut union = 0u64;
    for (i, (_, bb)) in kinds.iter().enumerate() {
        for (_, other) in kinds.iter().skip(i + 1) {
            if bb & other != 0 {
                return Err(Fail::new("views:kinds_overlap", format!("{fen}: kind sets overlap")));
            }
        }
        union |= bb;
    }
    if union != (white | black) || b.occupancy().as_u64() != union {
        return Err(Fail::new("views:union", format!("{fen}: union of kind sets differs from occupancy")));
    }
    for s in 0..64u8 {
        let bit = 1u64 << s;
        match b.piece_at(esq(s)) {
            Some(p) => {
                let kbb = kinds.iter().find(|(k, _)| *k == p.kind).unwrap().1;
                let cbb = if p.player == Player::White { white } else { black };
                if kbb & bit == 0 || cbb & bit == 0 {
                    return Err(Fail::new("views:square_vs_bitboards", format!("{fen}: square {} holds {:?} but the bitboards disagree", crate::refchess::sq_name(s), p)));
                }
            }
            None => {
                if union & bit != 0 {
                    return Err(Fail::new("views:square_vs_bitboards", format!("{fen}: square {} empty by square view but set in a bitboard", crate::refchess::sq_name(s))));
                }
            }
        }
    }
    if (kinds[5].1 & white).count_ones() != 1 || (kinds[5].1 & black).count_ones() != 1 {
        return Err(Fail::new("views:kings", format!("{fen}: not exactly one king each")));
    }
    Ok(())
}

/// (a) the engine position equals the reference position in every rule-defined aspect
pub fn equals_reference(g: &Game, p: &Pos, what: &str) -> Result<(), Fail> {
    let e = from_game(g);
    let sig = |f: &str| format!("state:{what}:{f}");
    if e.board != p.board {
        return Err(Fail::new(&sig("placement"), format!("after {what}: placement {} but rules give {}", e.to_fen(), p.to_fen())));
    }
    if e.white_to_move != p.white_to_move {
        return Err(Fail::new(&sig("side"), format!("after {what}: side to move wrong at {}", p.to_fen())));
    }
    if e.castle != p.castle {
        return Err(Fail::new(&sig("rights"), format!("after {what}: castling rights {} but rules give {}", e.to_fen(), p.to_fen())));
    }
    if e.ep != p.ep {
        return Err(Fail::new(&sig("ep"), format!("after {what}: en-passant target {} but expected {}", e.to_fen(), p.to_fen())));
    }
    if e.halfmove != p.halfmove {
        return Err(Fail::new(&sig("halfmove"), format!("after {what}: halfmove clock {} but rules give {} at {}", e.halfmove, p.halfmove, p.to_fen())));
    }
    if g.turn() != p.fullmove || g.plies != p.plies() {
        return Err(Fail::new(&sig("move_number"), format!("after {what}: move number {} (plies {}) but rules give {} at {}", g.turn(), g.plies, p.fullmove, p.to_fen())));
    }
    let fen = g.to_fen();
    if fen != p.to_fen() {
        return Err(Fail::new(&sig("fen"), format!("after {what}: to_fen {} but reference {}", fen, p.to_fen())));
    }
    Ok(())
}

struct Obs {
    snaps: Vec<Snapshot>,
}

impl Observer for Obs {
    fn at_root(&mut self, g: &Game, pos: &Pos, _st: &mut Stats) -> Result<(), Fail> {
        equals_reference(g, pos, "setup")?;
        views_consistent(g)
    }
    fn before_op(&mut self, g: &Game, _pos: &Pos, _op: &Op) {
        self.snaps.push(snapshot(g));
    }
    fn after_op(&mut self, g: &Game, pos: &Pos, op: &Op, _stack: &[Pos], st: &mut Stats) -> Result<(), Fail> {
        st.eval();
        let what = match op {
            Op::Make(_) => "make_move",
            Op::Null => "make_null_move",
            Op::Undo => "undo",
        };
        equals_reference(g, pos, what)?;
        views_consistent(g)?;
        if *op == Op::Undo {
            let want = self.snaps.pop().unwrap();
            let got = snapshot(g);
            if got != want {
                let d = diff(&got, &want);
                return Err(Fail::new(&format!("undo:not_restored:{d}"), format!("take-back did not restore [{d}] at {}", pos.to_fen()))
                    .with(json!({"before_make": format!("{want:?}"), "after_undo": format!("{got:?}")})));
            }
        }
        Ok(())
    }
}

/// The C02 observer (reference successor, three views, exact take-back), for the `histories` fuzz target.
pub fn observer() -> Box<dyn Observer> {
    Box::new(Obs { snaps: vec![] })
}

pub fn nontrivial(f: &Features) -> bool {
    f.castles > 0 || f.ep_captures > 0 || f.promotions > 0 || f.rook_home_capture_with_right > 0 || f.null_nested_under_2 > 0
}

pub fn run(run: &mut Run) -> &'static str {
    let max_ops = 60;
    let cases = run.tier.pick(300_000, 3_000_000);
    run.proptest_part("histories", RULE, hist_case(4..200), cases, |case: &HistCase, st: &mut Stats| {
        let mut obs = Obs { snaps: vec![] };
        let cfg = Config::search_like(max_ops);
        if let Some((feat, root, ops)) = interpret(case, &cfg, st, &mut obs)? {
            feat.classes(st);
            if nontrivial(&feat) {
                st.nontrivial(&(root.clone(), ops.clone()));
                st.nontrivial_sample(json!({"root": root, "ops": ops}));
            } else {
                st.sample(json!({"root": root, "ops": ops}));
            }
        }
        Ok(())
    });
    // very long histories (nesting beyond 1024 plies)
    let cases = run.tier.pick(320, 6_000);
    run.proptest_part("long_histories", RULE, hist_case(400..1500), cases, |case: &HistCase, st: &mut Stats| {
        let mut obs = Obs { snaps: vec![] };
        if let Some((feat, root, ops)) = interpret(case, &Config::long(), st, &mut obs)? {
            st.class_n("max_nesting_depth_reached_1025_or_more", u64::from(feat.max_depth >= 1025));
            if feat.max_depth >= 1025 {
                st.nontrivial(&(root.clone(), ops.len(), crate::framework::hash_of(&ops)));
                st.nontrivial_sample(json!({"root": root, "ops": ops.len(), "max_depth": feat.max_depth}));
            }
        }
        Ok(())
    });
    // thorough: coverage-guided fuzzing of the history tape (libFuzzer target `histories`, C02 + C03 +
    // C15 oracles inside); crashing tapes are judged here by this property's observer
    let crashes: Vec<HistCase> = super::fuzzglue::campaign(run, "histories", 400_000, 12, 400).into_iter().map(HistCase::Tape).collect();
    if !crashes.is_empty() {
        run.exhaustive_part("fuzz_crashes", RULE, crashes, |case: &HistCase, st: &mut Stats| {
            let mut obs = Obs { snaps: vec![] };
            interpret(case, &Config::search_like(max_ops), st, &mut obs).map(|_| ())
        });
    }
    // every legal move of every position of a walk: make, compare, undo, compare
    let cases = run.tier.pick(100_000, 1_000_000);
    run.proptest_part("all_moves", RULE, super::common::pos_case(4..120), cases, |case, st: &mut Stats| {
        let ps = case.positions(crate::gen::Mix::General, 24, st);
        for gp in ps {
            let p = &gp.pos;
            let mut g = to_game(p);
            let before = snapshot(&g);
            let ex = || super::common::explicit_fen(p);
            for m in p.legal_moves() {
                st.eval();
                let Some(em) = find_move(&g, &m) else { continue }; // C01's business
                let next = p.make(&m);
                g.make_move(em);
                equals_reference(&g, &next, "make_move").map_err(|f| f.explicit(ex()))?;
                views_consistent(&g).map_err(|f| f.explicit(ex()))?;
                g.undo_move();
                let after = snapshot(&g);
                if after != before {
                    let d = diff(&after, &before);
                    return Err(Fail::new(&format!("undo:not_restored:{d}"), format!("{}: take-back of {} did not restore [{d}]", p.to_fen(), m.uci())).explicit(ex()));
                }
                if is_special(&m) || (m.capture && [0u8, 7, 56, 63].contains(&m.to) && next.castle != p.castle) {
                    st.nontrivial(&(p.identity(), m.key()));
                    st.class(if m.castle { "castling" } else if m.ep { "ep_capture" } else if m.promo.is_some() { "promotion" } else { "rook_home_capture_with_right" });
                    st.nontrivial_sample(json!({"fen": p.to_fen(), "move": m.uci()}));
                }
            }
            // a null move and back, where a search could play it
            if !p.in_check() {
                g.make_null_move();
                equals_reference(&g, &p.make_null(), "make_null_move").map_err(|f| f.explicit(ex()))?;
                g.undo_null_move();
                let after = snapshot(&g);
                if after != before {
                    let d = diff(&after, &before);
                    return Err(Fail::new(&format!("undo_null:not_restored:{d}"), format!("{}: null-move take-back did not restore [{d}]", p.to_fen())).explicit(ex()));
                }
            }
        }
        Ok(())
    });
    RULE
}
