//! One module per property. Each exposes `pub fn run(run: &mut Run) -> &'static str` (returns its rule text).
pub mod collide;
pub mod common;
pub mod fuzzglue;
pub mod hist;
pub mod searchlib;
pub mod ucilib;

pub mod c01;
pub mod c02;
pub mod c03;
pub mod c04;
pub mod c05;
pub mod c06;
pub mod c07;
pub mod c08;
pub mod c09;
pub mod c10;
pub mod c11;
pub mod c12;
pub mod c13;
pub mod c14;
pub mod c15;
pub mod c16;
pub mod c17;
pub mod c18;
pub mod c19;
pub mod c20;

use crate::framework::Run;

pub const ALL: [&str; 20] = ["C01", "C02", "C03", "C04", "C05", "C06", "C07", "C08", "C09", "C10", "C11", "C12", "C13", "C14", "C15", "C16", "C17", "C18", "C19", "C20"];

pub fn dispatch(id: &str, run: &mut Run) -> Option<&'static str> {
    match id {
        "C01" => Some(c01::run(run)),
        "C02" => Some(c02::run(run)),
        "C03" => Some(c03::run(run)),
        "C04" => Some(c04::run(run)),
        "C05" => Some(c05::run(run)),
        "C06" => Some(c06::run(run)),
        "C07" => Some(c07::run(run)),
        "C08" => Some(c08::run(run)),
        "C09" => Some(c09::run(run)),
        "C10" => Some(c10::run(run)),
        "C11" => Some(c11::run(run)),
        "C12" => Some(c12::run(run)),
        "C13" => Some(c13::run(run)),
        "C14" => Some(c14::run(run)),
        "C15" => Some(c15::run(run)),
        "C16" => Some(c16::run(run)),
        "C17" => Some(c17::run(run)),
        "C18" => Some(c18::run(run)),
        "C19" => Some(c19::run(run)),
        "C20" => Some(c20::run(run)),
        _ => None,
    }
}
