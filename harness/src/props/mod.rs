//! One module per property. Each exposes `pub fn run(run: &mut Run)`.
pub mod common;

pub mod c01;

use crate::framework::Run;

pub const ALL: [&str; 1] = ["C01"];

pub fn dispatch(id: &str, run: &mut Run) -> Option<&'static str> {
    match id {
        "C01" => Some(c01::run(run)),
        _ => None,
    }
}
