//! C07 Attack tables equal first-principles geometry — exhaustive enumeration plus random occupancies.
use crate::adapter::*;
use crate::chess::bitboard::Bitboard;
use crate::chess::movegen::tables;
use crate::chess::player::Player;
use crate::framework::*;
use crate::refchess::{file_of, on_board, rank_of, sq, BISHOP_D, KING_D, KNIGHT_D, ROOK_D};
use proptest::prelude::*;
use serde::{Deserialize, Serialize};
use serde_json::json;

pub const RULE: &str = "exhaustive: for each of the 64 squares and both slider kinds, every subset of the square's relevant blocker mask (rook 102,400 + bishop 5,248 = 107,648 occupancies), each also with k noise patterns on the irrelevant bits (edge squares of the rays, off-ray squares, the square itself); knight/king (64 each), pawn (2 x 64) and between (64 x 64) completely; plus random full 64-bit occupancies. Oracle: coordinate ray walks / offset lists written in the harness. Every lookup runs in the checked build, where an out-of-range unchecked index aborts and is reported. Non-trivial = slider occupancy with at least one blocker on a ray; distinct by (kind, square, occupancy).";

fn ray_attacks(s: u8, occ: u64, dirs: &[(i32, i32)]) -> u64 {
    let mut a = 0u64;
    for (df, dr) in dirs {
        let (mut f, mut r) = (file_of(s) + df, rank_of(s) + dr);
        while on_board(f, r) {
            let t = sq(f, r);
            a |= 1u64 << t;
            if occ & (1u64 << t) != 0 {
                break;
            }
            f += df;
            r += dr;
        }
    }
    a
}

/// squares whose occupancy can change the attack set: on a ray, not the last square of the ray
fn relevant_mask(s: u8, dirs: &[(i32, i32)]) -> u64 {
    let mut m = 0u64;
    for (df, dr) in dirs {
        let (mut f, mut r) = (file_of(s) + df, rank_of(s) + dr);
        while on_board(f + df, r + dr) {
            m |= 1u64 << sq(f, r);
            f += df;
            r += dr;
        }
    }
    m
}

fn offsets(s: u8, ds: &[(i32, i32)]) -> u64 {
    let mut a = 0u64;
    for (df, dr) in ds {
        if on_board(file_of(s) + df, rank_of(s) + dr) {
            a |= 1u64 << sq(file_of(s) + df, rank_of(s) + dr);
        }
    }
    a
}

fn between_geo(a: u8, b: u8) -> u64 {
    if a == b {
        return 0;
    }
    let df = file_of(b) - file_of(a);
    let dr = rank_of(b) - rank_of(a);
    if !(df == 0 || dr == 0 || df.abs() == dr.abs()) {
        return 0;
    }
    let (sf, sr) = (df.signum(), dr.signum());
    let mut m = 0u64;
    let (mut f, mut r) = (file_of(a) + sf, rank_of(a) + sr);
    while (f, r) != (file_of(b), rank_of(b)) {
        m |= 1u64 << sq(f, r);
        f += sf;
        r += sr;
    }
    m
}

fn splitmix(x: &mut u64) -> u64 {
    *x = x.wrapping_add(0x9E37_79B9_7F4A_7C15);
    let mut z = *x;
    z = (z ^ (z >> 30)).wrapping_mul(0xBF58_476D_1CE4_E5B9);
    z = (z ^ (z >> 27)).wrapping_mul(0x94D0_49BB_1331_11EB);
    z ^ (z >> 31)
}

#[derive(Serialize, Deserialize, Clone, Debug)]
pub enum Item {
    /// all subsets of the relevant mask of one square, with `noise` noise patterns each
    Slider { rook: bool, square: u8, noise: u32, seed: u64 },
    /// one explicit lookup (replay form)
    Lookup { rook: bool, square: u8, occupancy: u64 },
    Leapers { square: u8 },
    Between { a: u8 },
}

fn lookup(rook: bool, s: u8, occ: u64) -> u64 {
    if rook {
        tables::rook_attacks(esq(s), Bitboard::new(occ)).as_u64()
    } else {
        tables::bishop_attacks(esq(s), Bitboard::new(occ)).as_u64()
    }
}

fn check_lookup(rook: bool, s: u8, occ: u64) -> Result<(), Fail> {
    let dirs: &[(i32, i32)] = if rook { &ROOK_D } else { &BISHOP_D };
    let want = ray_attacks(s, occ, dirs);
    let got = lookup(rook, s, occ);
    if got != want {
        return Err(Fail::new(
            if rook { "slider:rook" } else { "slider:bishop" },
            format!("{} attacks from {} with occupancy {occ:#018x}: table {got:#018x}, ray walk {want:#018x}", if rook { "rook" } else { "bishop" }, crate::refchess::sq_name(s)),
        )
        .explicit(json!({"Lookup": {"rook": rook, "square": s, "occupancy": occ}})));
    }
    Ok(())
}

fn run_item(it: &Item, st: &mut Stats) -> Result<(), Fail> {
    match it {
        Item::Slider { rook, square, noise, seed } => {
            let dirs: &[(i32, i32)] = if *rook { &ROOK_D } else { &BISHOP_D };
            let mask = relevant_mask(*square, dirs);
            let mut rng = seed ^ ((*square as u64) << 8) ^ u64::from(*rook);
            let mut sub = 0u64;
            let mut n = 0u64;
            loop {
                check_lookup(*rook, *square, sub)?;
                n += 1;
                if sub != 0 {
                    st.nontrivial(&(*rook, *square, sub));
                }
                for _ in 0..*noise {
                    let nz = splitmix(&mut rng) & !mask;
                    check_lookup(*rook, *square, sub | nz)?;
                    n += 1;
                    if sub != 0 {
                        st.nontrivial(&(*rook, *square, sub | nz));
                    }
                }
                sub = sub.wrapping_sub(mask) & mask;
                if sub == 0 {
                    break;
                }
            }
            st.evals(n);
            st.class_n(if *rook { "rook_lookups" } else { "bishop_lookups" }, n);
            if *square % 21 == 0 {
                st.nontrivial_sample(json!({"kind": if *rook {"rook"} else {"bishop"}, "square": crate::refchess::sq_name(*square), "relevant_mask": format!("{mask:#018x}"), "subsets": 1u64 << mask.count_ones(), "noise_patterns_each": noise}));
            }
            Ok(())
        }
        Item::Lookup { rook, square, occupancy } => {
            st.eval();
            check_lookup(*rook, *square, *occupancy)
        }
        Item::Leapers { square } => {
            let s = *square;
            st.evals(4);
            st.nontrivial(&("leapers", s));
            let n = tables::knight_attacks(esq(s)).as_u64();
            if n != offsets(s, &KNIGHT_D) {
                return Err(Fail::new("leaper:knight", format!("knight attacks from {}: table {n:#x}, geometry {:#x}", crate::refchess::sq_name(s), offsets(s, &KNIGHT_D))));
            }
            let k = tables::king_attacks(esq(s)).as_u64();
            if k != offsets(s, &KING_D) {
                return Err(Fail::new("leaper:king", format!("king attacks from {}: table {k:#x}, geometry {:#x}", crate::refchess::sq_name(s), offsets(s, &KING_D))));
            }
            let w = tables::pawn_attacks(esq(s), Player::White).as_u64();
            if w != offsets(s, &[(-1, 1), (1, 1)]) {
                return Err(Fail::new("leaper:pawn", format!("white pawn attacks from {}: table {w:#x}", crate::refchess::sq_name(s))));
            }
            let b = tables::pawn_attacks(esq(s), Player::Black).as_u64();
            if b != offsets(s, &[(-1, -1), (1, -1)]) {
                return Err(Fail::new("leaper:pawn", format!("black pawn attacks from {}: table {b:#x}", crate::refchess::sq_name(s))));
            }
            Ok(())
        }
        Item::Between { a } => {
            for b in 0..64u8 {
                st.eval();
                let got = tables::between(esq(*a), esq(b)).as_u64();
                let want = between_geo(*a, b);
                if want != 0 {
                    st.nontrivial(&("between", *a, b));
                }
                if got != want {
                    return Err(Fail::new("between", format!("between({}, {}): table {got:#x}, geometry {want:#x}", crate::refchess::sq_name(*a), crate::refchess::sq_name(b))));
                }
            }
            Ok(())
        }
    }
}

#[derive(Serialize, Deserialize, Clone, Debug)]
pub struct RandomOcc {
    rook: bool,
    square: u8,
    occupancy: u64,
}

pub fn run(run: &mut Run) -> &'static str {
    let noise = run.tier.pick(16, 128);
    let seed = run.seed;
    let mut items = vec![];
    for rook in [true, false] {
        for square in 0..64u8 {
            items.push(Item::Slider { rook, square, noise, seed });
        }
    }
    for square in 0..64u8 {
        items.push(Item::Leapers { square });
        items.push(Item::Between { a: square });
    }
    // rook items are 20x heavier: interleave so that workers stay balanced
    items.sort_by_key(|i| match i {
        Item::Slider { rook: true, square, .. } => *square as i32,
        Item::Slider { rook: false, square, .. } => 64 + *square as i32,
        _ => 200,
    });
    run.exhaustive_part("tables", RULE, items, run_item);
    let cases = run.tier.pick(4_000_000, 100_000_000);
    let strat = (any::<bool>(), 0u8..64, any::<u64>(), any::<u64>(), 0u8..4).prop_map(|(rook, square, a, b, dens)| RandomOcc {
        rook,
        square,
        // densities from sparse to dense
        occupancy: match dens {
            0 => a & b & a.rotate_left(17),
            1 => a & b,
            2 => a,
            _ => a | b,
        },
    });
    run.proptest_part("random_occupancy", RULE, strat, cases, |c: &RandomOcc, st: &mut Stats| {
        st.eval();
        let dirs: &[(i32, i32)] = if c.rook { &ROOK_D } else { &BISHOP_D };
        if c.occupancy & relevant_mask(c.square, dirs) != 0 {
            st.nontrivial(&(c.rook, c.square, c.occupancy));
            if st.want_nontrivial_sample() {
                st.nontrivial_sample(json!({"kind": if c.rook {"rook"} else {"bishop"}, "square": c.square, "occupancy": format!("{:#018x}", c.occupancy)}));
            }
        }
        check_lookup(c.rook, c.square, c.occupancy).map_err(|mut f| {
            f.explicit = None;
            f
        })
    });
    RULE
}
