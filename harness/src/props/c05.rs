//! C05 No command history can hang the engine.
use super::searchlib::gen_game_opts;
use super::ucilib::*;
use crate::framework::*;
use proptest::strategy::Strategy;
use serde::{Deserialize, Serialize};
use serde_json::json;
use std::time::{Duration, Instant};

pub const RULE: &str = "sessions of 3-40 commands over {isready, ucinewgame, position <generated game>, setoption (Hash 1-4, Move Overhead), go finite (depth 1-5 | movetime 5-60 ms | small clocks), go infinite, stop, quit} against the shipped binary; a third of the sessions open with the first search of the process (or of a new game) on a special root - exactly one legal move, dead material, fortress, forced mate - under each kind of go, followed by stop / isready; the driver keeps the session conforming (go/ucinewgame/position/setoption only when no bestmove is outstanding: it waits for the bestmove of a finite go, or sends stop first) and the generator chooses the timing of every command: in the same write as the previous one (stop / isready directly behind go), after 0-30 ms, or immediately after the engine's bestmove; per session a delay vector for the hook-H2 points (before the search thread takes the mutex, after the search, after bestmove is printed, after the latch is set, after ucinewgame resets the latch, before stop waits) of 0 or 15-40 ms each widens the microsecond windows. Model: every isready is answered by readyok within 10 s; every go gets exactly one bestmove (finite: by itself; infinite: after stop), never two; stop and ucinewgame return (the closing isready is answered); after quit the process exits with status 0. A missing answer is a violation only on evidence from /proc: readyok owed and the input thread asleep without CPU use for 3 s; bestmove owed and all threads asleep for 3 s; or bestmove owed and the engine still computing 30 s after a search limited to < 1 s or told to stop. Anything merely slow is inconclusive. A 'very_long_session' part keeps one process alive for max_map_count/2 + 4000 searches (about 36 800) and demands every bestmove, readyok and a clean exit. A 'very_long_game' part sends games of 1000-1500 plies in one position command and demands readyok, the bestmove of a depth search, the bestmove of an infinite search after stop and a clean quit. A 'latch_handover' part exercises the completion latch itself (reset / set by one thread, wait by another, 20000 hand-overs per case with generated jitter): once set() has returned, wait() must return. Non-trivial = session with a go and at least one of: stop after the search ended by itself, ucinewgame between a finished search and a stop, stop in the same write as go, a command sent inside a widened H2 window; distinct by (commands, timings, delays).";

#[derive(Serialize, Deserialize, Clone, Debug, PartialEq)]
pub enum Timing {
    /// same write as the previous command (only used for stop / isready)
    Batch,
    AfterMs(u32),
    /// immediately after the next bestmove arrives (if one is outstanding)
    AfterBestmove,
}

#[derive(Serialize, Deserialize, Clone, Debug, PartialEq)]
pub struct Step {
    cmd: String,
    timing: Timing,
}

#[derive(Serialize, Deserialize, Clone, Debug)]
pub enum Case {
    Tape(Vec<u16>),
    Explicit { delays: String, steps: Vec<Step> },
}

const POINTS: [&str; 7] = ["go_after_spawn", "go_before_lock", "go_after_search", "go_after_bestmove", "go_after_latch", "newgame_after_reset", "stop_before_wait"];

fn from_tape(data: &[u16]) -> (String, Vec<Step>) {
    let mut t = Tape::new(data);
    // delay vector
    let mut delays = vec![];
    if t.pick(3) != 0 {
        for p in POINTS {
            if t.pick(3) == 0 {
                delays.push(format!("{p}={}", 15 + t.pick(26)));
            }
        }
    }
    let n = 3 + t.pick(38);
    let mut steps = vec![];
    if t.pick(4) != 0 {
        steps.push(Step { cmd: "setoption name Hash value 1".into(), timing: Timing::AfterMs(0) });
    }
    // prologue (a third of the sessions): the *first* search of the process / of a new game is made on
    // a special root - exactly one legal move, dead material, fortress, forced mate - with each kind of
    // go, and is followed by stop / isready / ucinewgame at generated moments
    if t.pick(3) == 0 {
        if t.pick(2) == 0 {
            steps.push(Step { cmd: "ucinewgame".into(), timing: Timing::AfterMs(0) });
        }
        let kind = t.pick(6);
        // heavy capture storm (7-9 queens a side): the first root move alone outlasts the polling
        // distance, so a stop or an expired limit is seen before any root move has been searched
        let storm = kind == 5;
        let root = match kind {
            0 | 1 => super::searchlib::forced_theme(&mut t),
            2 => crate::gen::gen_root(&mut t, crate::gen::Mix::Sparse).map(|g| g.pos),
            3 => super::searchlib::fortress_theme(&mut t),
            4 => super::searchlib::mate_theme(&mut t),
            _ => super::searchlib::storm_theme_sized(&mut t, true),
        };
        if let Some(p) = root.filter(|p| !p.legal_moves().is_empty()) {
            steps.push(Step { cmd: format!("position fen {}", p.to_fen()), timing: Timing::AfterMs(0) });
            let go = match t.pick(5) {
                0 | 1 => format!("go wtime {} btime {} winc 0 binc 0", 100 + t.pick(600), 100 + t.pick(600)),
                // (a depth-limited search of a storm is unbounded in time: a short move time instead)
                2 if storm => format!("go movetime {}", 1 + t.pick(4)),
                2 => format!("go depth {}", 1 + t.pick(4)),
                3 => format!("go movetime {}", if storm { 1 + t.pick(30) } else { 5 + t.pick(56) }),
                _ => "go infinite".to_string(),
            };
            steps.push(Step { cmd: go, timing: Timing::AfterMs(0) });
            let after = |t: &mut Tape| match t.pick(3) {
                0 => Timing::Batch,
                1 => Timing::AfterBestmove,
                _ => Timing::AfterMs(t.pick(20) as u32),
            };
            match t.pick(4) {
                0 | 1 => steps.push(Step { cmd: "stop".into(), timing: after(&mut t) }),
                2 => steps.push(Step { cmd: "isready".into(), timing: after(&mut t) }),
                _ => {}
            }
            steps.push(Step { cmd: "isready".into(), timing: Timing::AfterMs(0) });
            if storm {
                // the rest of the session may search to a fixed depth: not on this position
                steps.push(Step { cmd: "stop".into(), timing: Timing::AfterMs(0) });
                steps.push(Step { cmd: "position startpos".into(), timing: Timing::AfterMs(0) });
            }
        }
    }
    for _ in 0..n {
        let timing = |t: &mut Tape| match t.pick(6) {
            0 | 1 => Timing::AfterMs(0),
            2 => Timing::AfterMs(1 + t.pick(30) as u32),
            3 | 4 => Timing::AfterBestmove,
            _ => Timing::AfterMs(t.pick(4) as u32),
        };
        let step = match t.pick(20) {
            0 | 1 => Step { cmd: "isready".into(), timing: if t.pick(2) == 0 { Timing::Batch } else { timing(&mut t) } },
            2 | 3 | 4 => Step { cmd: "ucinewgame".into(), timing: timing(&mut t) },
            5 | 6 => match gen_game_opts(&mut t, 2, 6, false) {
                Some((fen, moves, _, _)) => Step { cmd: if moves.is_empty() { format!("position fen {fen}") } else { format!("position fen {fen} moves {}", moves.join(" ")) }, timing: timing(&mut t) },
                None => continue,
            },
            7 => Step { cmd: format!("setoption name Hash value {}", 1 + t.pick(4)), timing: timing(&mut t) },
            8 => {
                if t.pick(3) == 0 {
                    Step { cmd: format!("debug {}", if t.pick(2) == 0 { "on" } else { "off" }), timing: timing(&mut t) }
                } else {
                    Step { cmd: format!("setoption name Move Overhead value {}", t.pick(50)), timing: timing(&mut t) }
                }
            }
            9 | 10 | 11 | 12 => {
                let cmd = match t.pick(4) {
                    0 => format!("go movetime {}", 5 + t.pick(56)),
                    1 => format!("go wtime {} btime {} winc 0 binc 0", 100 + t.pick(600), 100 + t.pick(600)),
                    _ => format!("go depth {}", 1 + t.pick(5)),
                };
                Step { cmd, timing: timing(&mut t) }
            }
            13 | 14 => Step { cmd: "go infinite".into(), timing: timing(&mut t) },
            15 | 16 | 17 | 18 => Step { cmd: "stop".into(), timing: if t.pick(3) == 0 { Timing::Batch } else { timing(&mut t) } },
            _ => {
                if t.pick(6) == 0 {
                    Step { cmd: "quit".into(), timing: timing(&mut t) }
                } else {
                    Step { cmd: "stop".into(), timing: timing(&mut t) }
                }
            }
        };
        let is_quit = step.cmd == "quit";
        let was_position = step.cmd.starts_with("position");
        steps.push(step);
        if was_position && t.pick(2) == 0 {
            // search the new position at once, often on the clock
            let cmd = match t.pick(3) {
                0 => format!("go depth {}", 1 + t.pick(4)),
                _ => format!("go wtime {} btime {} winc 0 binc 0", 100 + t.pick(600), 100 + t.pick(600)),
            };
            steps.push(Step { cmd, timing: Timing::AfterMs(0) });
        }
        if is_quit {
            break;
        }
    }
    (delays.join(","), steps)
}

const T_ANSWER: Duration = Duration::from_secs(10);

#[derive(PartialEq, Clone, Copy, Debug)]
enum Pending {
    None,
    Finite,
    Infinite,
}

struct Session {
    e: Engine,
    pending: Pending,
    gos: u32,
    bestmoves: u32,
    stop_sent_for_pending: bool,
    buffer: Vec<String>,
}

enum Missed {
    Overdue(String),
    Blocked(String),
    Slow(String),
    Died(String),
}

#[derive(Clone, Copy, PartialEq)]
enum Owed {
    ReadyOk,
    BestMove,
}

impl Session {
    /// Wait for a line accepted by `pred`; counts bestmoves on the way. While an answer is owed the
    /// process is watched through /proc (a runnable but descheduled thread is in state R, so machine
    /// load cannot produce these verdicts):
    /// * readyok owed: the input thread answers isready by itself; if it sleeps without using CPU for
    ///   3 s although the command has been written to its pipe, it is blocked on something else;
    /// * bestmove owed: if all threads sleep without using CPU for 3 s the answer is lost; if the
    ///   process still computes 30 s after the search should have ended (limits here are <= 0.7 s, a
    ///   stopped search ends within one 10,000-node poll interval) the stop / limit is being ignored.
    /// Anything else that merely takes long is "slow", never a verdict.
    fn wait_for(&mut self, what: &str, deadline: Duration, pred: &dyn Fn(&str) -> bool) -> Result<(), Missed> {
        let owed = if what.contains("readyok") { Owed::ReadyOk } else { Owed::BestMove };
        let t0 = Instant::now();
        let mut idle_since: Option<(Instant, u64)> = None;
        let pid = self.e.pid();
        loop {
            match self.e.read_line(Duration::from_millis(250)) {
                Ok(Some(l)) => {
                    idle_since = None;
                    if l.contains("panic") {
                        return Err(Missed::Died(format!("panic output: {l}")));
                    }
                    let hit = pred(&l);
                    if l.starts_with("bestmove") {
                        self.bestmoves += 1;
                        self.pending = Pending::None;
                        self.stop_sent_for_pending = false;
                    }
                    if hit {
                        return Ok(());
                    }
                }
                Ok(None) => return Err(Missed::Died(format!("output ended while waiting for {what}"))),
                Err(_) => {
                    let Some(threads) = self.e.proc_threads() else {
                        return Err(Missed::Died(format!("process gone while waiting for {what}")));
                    };
                    let (asleep, ticks) = match owed {
                        Owed::ReadyOk => {
                            let main = threads.iter().find(|t| t.0 == pid);
                            (main.map_or(false, |t| t.1 == 'S' || t.1 == 'D'), main.map_or(0, |t| t.2))
                        }
                        Owed::BestMove => (threads.iter().all(|t| t.1 == 'S' || t.1 == 'D'), threads.iter().map(|t| t.2).sum()),
                    };
                    if asleep {
                        match idle_since {
                            Some((since, t)) if t == ticks => {
                                if since.elapsed() >= Duration::from_secs(3) {
                                    let who = if owed == Owed::ReadyOk { "the input thread sleeps" } else { "all threads sleep" };
                                    return Err(Missed::Blocked(format!("{what} not received after {:?}: {who} without using CPU for 3 s while the answer is owed", t0.elapsed())));
                                }
                            }
                            _ => idle_since = Some((Instant::now(), ticks)),
                        }
                    } else {
                        idle_since = None;
                    }
                    if owed == Owed::BestMove && t0.elapsed() > Duration::from_secs(30) {
                        return Err(Missed::Overdue(format!("{what} not received after {:?} although the search was limited to well under a second or told to stop: the engine keeps searching", t0.elapsed())));
                    }
                    if t0.elapsed() > deadline + Duration::from_secs(60) {
                        return Err(Missed::Slow(format!("{what} not received after {:?} although the process is not blocked", t0.elapsed())));
                    }
                }
            }
        }
    }

    fn blocked(&self) -> bool {
        let Some((t0, _)) = self.e.proc_state() else { return false };
        for _ in 0..6 {
            std::thread::sleep(Duration::from_millis(500));
            match self.e.proc_state() {
                Some((t, s)) if t == t0 && s => {}
                _ => return false,
            }
        }
        true
    }

    /// make it legal to send a command that requires "no bestmove outstanding"
    fn settle(&mut self) -> Result<(), Missed> {
        match self.pending {
            Pending::None => Ok(()),
            Pending::Finite => self.wait_for("the bestmove of a finite go", Duration::from_secs(20), &|l| l.starts_with("bestmove")),
            Pending::Infinite => {
                if !self.stop_sent_for_pending {
                    self.e.send("stop").map_err(Missed::Died)?;
                    self.stop_sent_for_pending = true;
                }
                self.wait_for("the bestmove after stop", T_ANSWER, &|l| l.starts_with("bestmove"))
            }
        }
    }
}

fn run_session(delays: &str, steps: &[Step], st: &mut Stats) -> Result<(), Fail> {
    st.eval();
    let ex = || json!({"Explicit": {"delays": delays, "steps": steps}});
    let env: Vec<(&str, String)> = if delays.is_empty() { vec![] } else { vec![("TCHERAN_VERIF_DELAYS", delays.to_string())] };
    let e = Engine::spawn(&env).map_err(|e| Fail::new("binary:io", e))?;
    let mut s = Session { e, pending: Pending::None, gos: 0, bestmoves: 0, stop_sent_for_pending: false, buffer: vec![] };
    // features
    let mut finished_search_not_stopped = false; // a search ended by itself and no stop was sent since
    let mut newgame_after_finished = false;
    let (mut f_stop_after_self_end, mut f_newgame_then_stop, mut f_stop_batched, mut f_in_window) = (false, false, false, false);
    let has_delay = |p: &str| delays.contains(p);
    let mut quit_sent = false;
    let to_fail = |s: &Session, m: Missed| -> Fail {
        let tail: Vec<String> = s.e.transcript.iter().rev().take(12).rev().cloned().collect();
        match m {
            Missed::Overdue(w) => Fail::new("bestmove_overdue:still_searching", format!("{w}; delays [{delays}]; last lines: {tail:?}")).explicit(ex()),
            Missed::Blocked(w) => Fail::new("hang:blocked", format!("{w}; delays [{delays}]; last lines: {tail:?}")).explicit(ex()),
            Missed::Died(w) => Fail::new("engine_died", format!("{w}; delays [{delays}]; last lines: {tail:?}")).explicit(ex()),
            Missed::Slow(w) => Fail::new("inconclusive:slow", format!("{w}; last lines: {tail:?}")).explicit(ex()),
        }
    };
    let mut prev_was_go = false;
    let mut i = 0;
    while i < steps.len() {
        let step = &steps[i];
        let cmd = step.cmd.as_str();
        let restricted = cmd.starts_with("go") || cmd == "ucinewgame" || cmd.starts_with("position") || cmd.starts_with("setoption");
        // timing
        match &step.timing {
            Timing::AfterBestmove => {
                if s.pending == Pending::Finite {
                    let had = s.bestmoves;
                    if let Err(m) = s.wait_for("the bestmove of a finite go", Duration::from_secs(20), &|l| l.starts_with("bestmove")) {
                        return Err(to_fail(&s, m));
                    }
                    if s.bestmoves > had {
                        finished_search_not_stopped = true;
                        if has_delay("go_after_bestmove") || has_delay("go_after_latch") {
                            f_in_window = true;
                        }
                    }
                }
            }
            Timing::AfterMs(n) => {
                if *n > 0 {
                    std::thread::sleep(Duration::from_millis(*n as u64));
                }
            }
            Timing::Batch => {}
        }
        if restricted {
            let was = s.pending;
            if let Err(m) = s.settle() {
                return Err(to_fail(&s, m));
            }
            if was == Pending::Finite {
                finished_search_not_stopped = true;
            }
        }
        // stop / isready directly behind go in one write
        let batch_ok = prev_was_go && step.timing == Timing::Batch && (cmd == "stop" || cmd == "isready");
        let _ = batch_ok;
        if cmd.starts_with("go") {
            // collect following Batch steps of stop / isready into the same write
            let mut lines = vec![cmd.to_string()];
            let mut j = i + 1;
            while j < steps.len() && steps[j].timing == Timing::Batch && (steps[j].cmd == "stop" || steps[j].cmd == "isready") {
                lines.push(steps[j].cmd.clone());
                j += 1;
            }
            s.gos += 1;
            s.pending = if cmd == "go infinite" { Pending::Infinite } else { Pending::Finite };
            s.stop_sent_for_pending = false;
            finished_search_not_stopped = false;
            newgame_after_finished = false;
            if lines.len() > 1 && has_delay("go_before_lock") {
                f_in_window = true;
            }
            if let Err(x) = s.e.send_batch(&lines) {
                return Err(to_fail(&s, Missed::Died(x)));
            }
            for l in &lines[1..] {
                if l == "stop" {
                    f_stop_batched = true;
                    s.stop_sent_for_pending = true;
                } else if let Err(m) = s.wait_for("readyok", T_ANSWER + Duration::from_secs(20), &|l| l == "readyok") {
                    return Err(to_fail(&s, m));
                }
            }
            i = j;
            prev_was_go = true;
            continue;
        }
        prev_was_go = false;
        if let Err(x) = s.e.send(cmd) {
            return Err(to_fail(&s, Missed::Died(x)));
        }
        match cmd {
            "isready" => {
                // legitimately blocked at most for one poll interval of a stopped search
                let dl = if s.pending == Pending::None { T_ANSWER } else { T_ANSWER + Duration::from_secs(20) };
                if let Err(m) = s.wait_for("readyok", dl, &|l| l == "readyok") {
                    return Err(to_fail(&s, m));
                }
            }
            "stop" => {
                if s.pending == Pending::None {
                    if finished_search_not_stopped {
                        f_stop_after_self_end = true;
                        if newgame_after_finished {
                            f_newgame_then_stop = true;
                        }
                    }
                    finished_search_not_stopped = false;
                } else {
                    s.stop_sent_for_pending = true;
                }
            }
            "ucinewgame" => {
                if finished_search_not_stopped {
                    newgame_after_finished = true;
                }
            }
            "quit" => {
                quit_sent = true;
                break;
            }
            _ => {}
        }
        i += 1;
    }
    if !quit_sent {
        // close: everything owed must arrive, then the engine must still answer and exit
        if s.pending == Pending::Infinite && !s.stop_sent_for_pending {
            if let Err(x) = s.e.send("stop") {
                return Err(to_fail(&s, Missed::Died(x)));
            }
            s.stop_sent_for_pending = true;
        }
        if s.pending != Pending::None {
            if let Err(m) = s.wait_for("the outstanding bestmove", Duration::from_secs(30), &|l| l.starts_with("bestmove")) {
                return Err(to_fail(&s, m));
            }
        }
        if let Err(x) = s.e.send("isready") {
            return Err(to_fail(&s, Missed::Died(x)));
        }
        if let Err(m) = s.wait_for("the closing readyok", T_ANSWER, &|l| l == "readyok") {
            return Err(to_fail(&s, m));
        }
        if s.bestmoves != s.gos {
            return Err(Fail::new("bestmove_count", format!("{} go commands but {} bestmove lines; delays [{delays}]", s.gos, s.bestmoves)).explicit(ex()));
        }
        if let Err(x) = s.e.send("quit") {
            return Err(to_fail(&s, Missed::Died(x)));
        }
    }
    match s.e.wait_exit(T_ANSWER) {
        Some(0) => {}
        Some(c) => return Err(Fail::new("exit_status", format!("exit status {c} after quit; delays [{delays}]")).explicit(ex())),
        None => {
            if s.blocked() {
                return Err(to_fail(&s, Missed::Blocked("the process does not exit after quit".into())));
            }
            return Err(to_fail(&s, Missed::Slow("the process had not exited 10 s after quit".into())));
        }
    }
    // drain: a second bestmove for one go must never appear
    while let Ok(Some(l)) = s.e.read_line(Duration::from_millis(50)) {
        if l.starts_with("bestmove") {
            s.bestmoves += 1;
        }
    }
    if s.bestmoves > s.gos {
        return Err(Fail::new("bestmove_count", format!("{} go commands but {} bestmove lines; delays [{delays}]", s.gos, s.bestmoves)).explicit(ex()));
    }
    for (f, name) in [(f_stop_after_self_end, "stop_after_search_ended_by_itself"), (f_newgame_then_stop, "ucinewgame_between_finished_search_and_stop"), (f_stop_batched, "stop_in_same_write_as_go"), (f_in_window, "command_inside_widened_window")] {
        if f {
            st.class(name);
        }
    }
    if !delays.is_empty() {
        st.class("with_delay_injection");
    }
    if s.gos > 0 && (f_stop_after_self_end || f_newgame_then_stop || f_stop_batched || f_in_window) {
        st.nontrivial(&format!("{delays} {steps:?}"));
        if st.want_nontrivial_sample() {
            st.nontrivial_sample(json!({"delays": delays, "steps": steps.iter().map(|s| format!("{:?} {}", s.timing, s.cmd)).collect::<Vec<_>>() }));
        }
    } else if st.want_sample() {
        st.sample(json!({"delays": delays, "steps": steps.iter().map(|s| format!("{:?} {}", s.timing, s.cmd)).collect::<Vec<_>>() }));
    }
    Ok(())
}

pub fn run(run: &mut Run) -> &'static str {
    if !engine_available() {
        infra("C05 needs the engine binary (TCHERAN_BIN)");
    }
    let tier = run.tier;
    let cases = tier.pick(640, 20_000);
    run.watchdog_secs = Some(900);
    run.max_shrink_ms = 90_000;
    run.max_shrink_iters = 64;
    let strat = tape(16..200).prop_map(Case::Tape);
    run.proptest_part("sessions", RULE, strat, cases, |c: &Case, st: &mut Stats| {
        let r = match c {
            Case::Tape(t) => {
                let (d, s) = from_tape(t);
                run_session(&d, &s, st)
            }
            Case::Explicit { delays, steps } => run_session(delays, steps, st),
        };
        match r {
            // slow-but-not-blocked is never a verdict
            Err(f) if f.signature == "inconclusive:slow" => {
                st.class("inconclusive_slow_session");
                println!("note: {}", f.msg);
                Ok(())
            }
            other => other,
        }
    });
    run.assume("schedules are sampled (timing choices + delay injection), not enumerated");
    // One process, tens of thousands of searches (a match runner keeps an engine alive for hundreds of
    // games): the engine must still answer afterwards. The number is taken from the kernel's limit on
    // memory mappings (a search thread that is never released costs two of them), capped at 80 000.
    if engine_available() {
        let limit: u64 = std::fs::read_to_string("/proc/sys/vm/max_map_count").ok().and_then(|s| s.trim().parse().ok()).unwrap_or(65_530);
        let n = (limit / 2 + 4_000).min(80_000);
        let sessions: Vec<u64> = if run.tier == Tier::Quick { vec![n] } else { vec![n, n + 1_000] };
        let old = run.workers;
        run.workers = 2;
        run.exhaustive_part("very_long_session", RULE, sessions, |n: &u64, st: &mut Stats| {
            st.eval();
            st.nontrivial(n);
            let io = |e: String| Fail::new("binary:io", format!("engine process: {e}"));
            let mut e = Engine::spawn(&[]).map_err(io)?;
            e.send("setoption name Hash value 1").map_err(io)?;
            e.send("position startpos").map_err(io)?;
            let mut answered = 0u64;
            for i in 0..*n {
                e.transcript.clear();
                if let Err(x) = e.send("go depth 1") {
                    return Err(Fail::new("long_session:engine_gone", format!("search {i} of one process: cannot write 'go depth 1': {x}")));
                }
                loop {
                    match e.read_line(Duration::from_secs(30)) {
                        Ok(Some(l)) if l.starts_with("bestmove") => {
                            answered += 1;
                            break;
                        }
                        Ok(Some(l)) if l.contains("panic") || l.contains("failed to") => {
                            return Err(Fail::new("long_session:engine_died", format!("search {i} of one process: the engine printed '{l}' and gave no bestmove ({answered} searches had been answered)")));
                        }
                        Ok(Some(_)) => {}
                        Ok(None) => return Err(Fail::new("long_session:engine_died", format!("search {i} of one process: output ended without a bestmove ({answered} searches had been answered)"))),
                        Err(x) => return Err(Fail::new("long_session:no_bestmove", format!("search {i} of one process: {x} ({answered} searches had been answered)"))),
                    }
                }
            }
            e.send("isready").map_err(io)?;
            loop {
                match e.read_line(Duration::from_secs(30)) {
                    Ok(Some(l)) if l == "readyok" => break,
                    Ok(Some(_)) => {}
                    Ok(None) => return Err(Fail::new("long_session:engine_died", format!("after {n} searches: output ended before readyok"))),
                    Err(x) => return Err(Fail::new("long_session:no_readyok", format!("after {n} searches: {x}"))),
                }
            }
            st.class_n("searches_in_one_process", answered);
            e.quit();
            Ok(())
        });
        run.workers = old;
    }
    // Very long games: a GUI that does not adjudicate sends `position startpos moves ...` with more than
    // a thousand plies. The command, a following isready, a depth search, an infinite search ended by
    // stop and a clean quit are all owed as for any other history.
    {
        let games: Vec<u64> = if run.tier == Tier::Quick { (0..6).collect() } else { (0..60).collect() };
        let seed = run.seed;
        run.exhaustive_part("very_long_game", RULE, games, move |g: &u64, st: &mut Stats| {
            st.eval();
            // a legal game by the reference model: weighted random walk that never plays into a position
            // without legal moves; 1000-1500 plies
            let data: Vec<u16> = (0..4000u64).map(|i| (hash_of(&(seed, *g, i)) >> 7) as u16).collect();
            let mut t = Tape::new(&data);
            let target = 1000 + t.pick(500);
            let mut cur = crate::refchess::Pos::start();
            let mut moves: Vec<String> = vec![];
            while moves.len() < target {
                let legal = cur.legal_moves();
                let mut chosen = None;
                for _ in 0..6 {
                    let m = legal[t.pick(legal.len())];
                    // keep material on the board: captures only now and then
                    if m.capture && t.pick(8) != 0 {
                        continue;
                    }
                    let next = cur.make(&m);
                    if !next.legal_moves().is_empty() {
                        chosen = Some((m, next));
                        break;
                    }
                }
                if chosen.is_none() {
                    // any move that keeps the game going
                    chosen = legal.iter().map(|m| (*m, cur.make(m))).find(|(_, n)| !n.legal_moves().is_empty());
                }
                let Some((m, next)) = chosen else { break };
                moves.push(m.uci());
                cur = next;
            }
            st.class_n("plies_in_very_long_games", moves.len() as u64);
            if std::env::var("VERIF_DEBUG").is_ok() { eprintln!("very_long_game {g}: {} plies, final {}", moves.len(), cur.to_fen()); }
            if moves.len() > 1024 {
                st.nontrivial(&(*g, moves.len()));
                st.nontrivial_sample(json!({"plies": moves.len(), "final_position": cur.to_fen()}));
            }
            let cmd = format!("position startpos moves {}", moves.join(" "));
            let ex = || json!({"Explicit": {"delays": "", "steps": [
                {"cmd": "setoption name Hash value 1", "timing": {"AfterMs": 0}}, {"cmd": cmd, "timing": {"AfterMs": 0}}, {"cmd": "isready", "timing": {"AfterMs": 0}},
                {"cmd": "go depth 4", "timing": {"AfterMs": 0}}, {"cmd": "go infinite", "timing": "AfterBestmove"}, {"cmd": "stop", "timing": {"AfterMs": 30}}, {"cmd": "isready", "timing": {"AfterMs": 0}}, {"cmd": "quit", "timing": {"AfterMs": 0}}]}});
            let io = |e: String| Fail::new("binary:io", format!("engine process: {e}"));
            let mut e = Engine::spawn(&[]).map_err(io)?;
            e.send("setoption name Hash value 1").map_err(io)?;
            let wait = |e: &mut Engine, what: &str, pred: &dyn Fn(&str) -> bool| -> Result<(), Fail> {
                loop {
                    match e.read_line(Duration::from_secs(60)) {
                        Ok(Some(l)) if pred(&l) => return Ok(()),
                        Ok(Some(l)) if l.contains("panic") => return Err(Fail::new("long_game:engine_died", format!("after a position command with {} plies: waiting for {what}, the engine printed '{l}'", moves.len())).explicit(ex())),
                        Ok(Some(_)) => {}
                        Ok(None) => return Err(Fail::new("long_game:engine_died", format!("after a position command with {} plies: output ended while waiting for {what}", moves.len())).explicit(ex())),
                        Err(x) => return Err(Fail::new("long_game:no_answer", format!("after a position command with {} plies: {what} did not arrive: {x}", moves.len())).explicit(ex())),
                    }
                }
            };
            e.send(&cmd).map_err(io)?;
            e.send("isready").map_err(io)?;
            wait(&mut e, "readyok", &|l| l == "readyok")?;
            e.send("go depth 4").map_err(io)?;
            wait(&mut e, "the bestmove of go depth 4", &|l| l.starts_with("bestmove"))?;
            e.send("go infinite").map_err(io)?;
            std::thread::sleep(Duration::from_millis(30));
            e.send("stop").map_err(io)?;
            wait(&mut e, "the bestmove after stop", &|l| l.starts_with("bestmove"))?;
            e.send("isready").map_err(io)?;
            wait(&mut e, "readyok", &|l| l == "readyok")?;
            e.quit();
            Ok(())
        });
    }
    // The hand-over that `stop` relies on, at the latch itself: the search thread sets the latch when it
    // is done, the input thread waits on it, ucinewgame resets it. Two real threads repeat that
    // hand-over tens of thousands of times with generated jitter between "reset", "set" and "wait";
    // once `set` has returned, `wait` must return (a lost wake-up leaves `stop` blocked for ever).
    #[cfg(latch_api)]
    {
        use crate::engine::util::sync::LockLatch;
        use std::sync::atomic::{AtomicU64, Ordering};
        use std::sync::Arc;
        let cases = run.tier.pick(32, 600);
        let old = run.workers;
        run.workers = 8;
        run.proptest_part("latch_handover", RULE, (proptest::num::u64::ANY, 0u32..4), cases, |(seed, mode): &(u64, u32), st: &mut Stats| {
            const ROUNDS: u64 = 20_000;
            let latch = Arc::new(LockLatch::new());
            let go = Arc::new(AtomicU64::new(0)); // round number published by the setter
            let done = Arc::new(AtomicU64::new(0)); // last round whose wait() has returned
            let jit = |x: &mut u64, span: u64| -> u64 {
                *x ^= *x << 13;
                *x ^= *x >> 7;
                *x ^= *x << 17;
                if span == 0 { 0 } else { *x % span }
            };
            let span = [0u64, 40, 400, 4000][*mode as usize];
            let waiter = {
                let (latch, go, done) = (latch.clone(), go.clone(), done.clone());
                let mut x = seed ^ 0x9e37_79b9_7f4a_7c15 | 1;
                std::thread::spawn(move || {
                    for r in 1..=ROUNDS {
                        while go.load(Ordering::Acquire) < r {
                            std::hint::spin_loop();
                        }
                        if go.load(Ordering::Acquire) == u64::MAX {
                            return;
                        }
                        for _ in 0..jit(&mut x, span) {
                            std::hint::spin_loop();
                        }
                        latch.wait();
                        done.store(r, Ordering::Release);
                    }
                })
            };
            let mut x = *seed | 1;
            let mut failed = None;
            for r in 1..=ROUNDS {
                latch.reset();
                go.store(r, Ordering::Release);
                for _ in 0..jit(&mut x, span) {
                    std::hint::spin_loop();
                }
                latch.set();
                // set() has returned: the waiter must come back
                let t0 = std::time::Instant::now();
                while done.load(Ordering::Acquire) < r {
                    if t0.elapsed() > Duration::from_secs(20) {
                        failed = Some(r);
                        break;
                    }
                    if t0.elapsed() > Duration::from_millis(2) {
                        std::thread::sleep(Duration::from_micros(200));
                    } else {
                        std::hint::spin_loop();
                    }
                }
                if failed.is_some() {
                    break;
                }
            }
            st.eval();
            st.class_n("latch_handovers", failed.unwrap_or(ROUNDS));
            st.nontrivial(&(*seed, *mode));
            match failed {
                None => {
                    let _ = waiter.join();
                    Ok(())
                }
                Some(r) => {
                    // release the blocked thread so that it does not outlive the case
                    go.store(u64::MAX, Ordering::Release);
                    latch.set();
                    Err(Fail::new("latch:lost_wakeup", format!("hand-over {r} (jitter 0..{span} spins): set() returned 20 s ago, the latch is set, and wait() has still not returned - `stop` would block for ever")))
                }
            }
        });
        run.workers = old;
    }
    RULE
}
