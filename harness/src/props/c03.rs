//! C03 The position key depends on the position alone.
use super::common::*;
use super::hist::*;
use crate::adapter::*;
use crate::chess::game::{CastleRightsSide, Game};
use crate::chess::piece::{Piece, PieceKind};
use crate::chess::player::Player;
use crate::chess::zobrist::{self, ZobristHash};
use crate::framework::*;
use crate::gen::Mix;
use crate::refchess::{Kind, Pc, Pos};
use serde::{Deserialize, Serialize};
use serde_json::json;
use std::collections::HashMap;
use std::sync::Mutex;

pub const RULE: &str = "histories as in C02 (walk-heavy from few roots so that identities recur by different move orders): after every op game.zobrist must equal zobrist::hash(game); a run-wide map identity(placement, side, rights, e.p. target) -> key must stay a function and injective on everything explored. Twins: for generated positions, the same position with e.p. target removed/moved, one right flipped, side flipped, one piece moved/changed/removed must have a different key, and the same position with another halfmove clock / move number (as reached along a longer or shorter path) must have the same key. Components: all 768 piece-square + 4 castling + 64 e.p. + no-e.p. + side words read back through the public API are pairwise distinct and non-zero (exhaustive). Non-trivial history = contains a rook captured at home with the right present, an e.p. target set then cleared, a null move with an e.p. target pending, castling or a promotion; distinct by (root, op list).";

type Ident = [u8; 35];

fn ident(p: &Pos) -> Ident {
    let mut out = [0u8; 35];
    for s in 0..64 {
        let v = match p.board[s] {
            None => 0u8,
            Some(pc) => 1 + pc.kind.idx() as u8 + if pc.white { 0 } else { 6 },
        };
        out[s / 2] |= v << (4 * (s % 2));
    }
    out[32] = u8::from(p.white_to_move);
    out[33] = p.castle.iter().enumerate().map(|(i, c)| u8::from(*c) << i).sum();
    out[34] = p.ep.map_or(255, |e| e);
    out
}

const SHARDS: usize = 64;
const SHARD_CAP: usize = 150_000;

pub struct KeyMaps {
    by_ident: Vec<Mutex<HashMap<Ident, (u64, u32)>>>, // key, number of distinct paths seen (saturating)
    by_key: Vec<Mutex<HashMap<u64, Ident>>>,
}

impl KeyMaps {
    pub fn new() -> KeyMaps {
        KeyMaps {
            by_ident: (0..SHARDS).map(|_| Mutex::new(HashMap::new())).collect(),
            by_key: (0..SHARDS).map(|_| Mutex::new(HashMap::new())).collect(),
        }
    }
    /// returns Err(description) on a functional / injectivity violation
    pub fn observe(&self, p: &Pos, key: u64, path_hash: u64) -> Result<bool, (String, &'static str)> {
        let id = ident(p);
        let mut recurred = false;
        {
            let mut m = self.by_ident[(hash_of(&id) as usize) % SHARDS].lock().unwrap();
            match m.get_mut(&id) {
                Some((k, paths)) => {
                    if *k != key {
                        return Err((format!("{}: one position, two keys: {:#x} and {:#x}", p.to_fen(), *k, key), "key:not_a_function_of_position"));
                    }
                    if *paths as u64 != (path_hash & 0x7fff_ffff) {
                        recurred = true;
                    }
                }
                None => {
                    if m.len() < SHARD_CAP {
                        m.insert(id, (key, (path_hash & 0x7fff_ffff) as u32));
                    }
                }
            }
        }
        let mut m = self.by_key[(key as usize) % SHARDS].lock().unwrap();
        match m.get(&key) {
            Some(other) if *other != id => {
                return Err((format!("{}: key {:#x} is shared with a different position", p.to_fen(), key), "key:collision"));
            }
            Some(_) => {}
            None => {
                if m.len() < SHARD_CAP {
                    m.insert(key, id);
                }
            }
        }
        Ok(recurred)
    }
    pub fn identities(&self) -> usize {
        self.by_ident.iter().map(|m| m.lock().unwrap().len()).sum()
    }
}

struct Obs<'a> {
    maps: &'a KeyMaps,
    path: u64,
    recurrences: u64,
    /// the root was constructed to have a chosen key value (theme_special_key): different positions
    /// sharing a key are then the generator's doing (a 64-bit key cannot be injective, and the property
    /// does not ask for it) and the collision map is not consulted for this history
    constructed_key: bool,
}

pub fn check_key(g: &Game, pos: &Pos) -> Result<(), Fail> {
    let fresh = zobrist::hash(g);
    if g.zobrist != fresh {
        return Err(Fail::new("key:incremental_differs_from_scratch", format!("{}: carried key {:#x} but hash() gives {:#x}", pos.to_fen(), g.zobrist.0, fresh.0)));
    }
    Ok(())
}

impl<'a> Observer for Obs<'a> {
    fn at_root(&mut self, g: &Game, pos: &Pos, st: &mut Stats) -> Result<(), Fail> {
        if [0u64, !0u64, 1, 1 << 63].contains(&g.zobrist.0) {
            self.constructed_key = true;
            st.class("root_with_a_constructed_key_value");
        }
        check_key(g, pos)
    }
    fn after_op(&mut self, g: &Game, pos: &Pos, op: &Op, _stack: &[Pos], st: &mut Stats) -> Result<(), Fail> {
        st.eval();
        check_key(g, pos)?;
        if self.constructed_key {
            return Ok(());
        }
        self.path = hash_of(&(self.path, op.text()));
        match self.maps.observe(pos, g.zobrist.0, self.path) {
            Ok(rec) => {
                if rec {
                    self.recurrences += 1;
                }
                Ok(())
            }
            Err((msg, sig)) => Err(Fail::new(sig, msg)),
        }
    }
}

#[derive(Serialize, Deserialize, Clone, Debug)]
pub enum Component {
    Piece { white: bool, kind: u8, sq: u8 },
    Castle { white: bool, kingside: bool },
    EnPassant { sq: u8 },
    NoEnPassant,
    Side,
}

fn component_value(c: &Component) -> u64 {
    // every word is read off the from-scratch key (the property's own observable): the key of an
    // empty board with exactly that component, xor the key of the empty board itself
    let key = |f: &dyn Fn(&mut Pos)| {
        let mut p = Pos::empty();
        p.white_to_move = true;
        f(&mut p);
        zobrist::hash(&to_game(&p)).0
    };
    let base = key(&|_| {});
    match c {
        Component::Piece { white, kind, sq } => {
            key(&|p| p.board[*sq as usize] = Some(crate::refchess::Pc::new(*white, crate::adapter::kind_from_engine(PieceKind::ALL[*kind as usize])))) ^ base
        }
        Component::Castle { white, kingside } => key(&|p| p.castle[(if *white { 0 } else { 2 }) + (if *kingside { 0 } else { 1 })] = true) ^ base,
        // the e.p. part of a key is one word out of 65 (64 targets, "none"); `base` carries "none"
        Component::EnPassant { sq } => key(&|p| p.ep = Some(*sq)),
        Component::NoEnPassant => base,
        Component::Side => key(&|p| p.white_to_move = false) ^ base,
    }
}

pub fn all_components() -> Vec<Component> {
    let mut v = vec![];
    for white in [true, false] {
        for kind in 0..6u8 {
            for sq in 0..64u8 {
                v.push(Component::Piece { white, kind, sq });
            }
        }
        for kingside in [true, false] {
            v.push(Component::Castle { white, kingside });
        }
    }
    for sq in 0..64u8 {
        v.push(Component::EnPassant { sq });
    }
    v.push(Component::NoEnPassant);
    v.push(Component::Side);
    v
}

/// Twins of a position: (description, twin). Not necessarily legal positions; only hashed.
fn twins(p: &Pos, t: &mut Tape) -> Vec<(&'static str, Pos)> {
    let mut out = vec![];
    let mut q = p.clone();
    q.white_to_move = !p.white_to_move;
    out.push(("side_flipped", q));
    for i in 0..4 {
        let mut q = p.clone();
        q.castle[i] = !p.castle[i];
        out.push(("right_flipped", q));
    }
    let mut q = p.clone();
    q.ep = match p.ep {
        Some(_) => None,
        None => Some(if p.white_to_move { 40 } else { 16 } + t.pick(8) as u8),
    };
    out.push(("ep_toggled", q));
    if let Some(e) = p.ep {
        let mut q = p.clone();
        q.ep = Some((e & !7) | ((e + 1 + t.pick(7) as u8) & 7));
        out.push(("ep_moved", q));
    }
    // one piece moved / changed / removed, one added
    let occupied: Vec<u8> = (0..64u8).filter(|s| p.board[*s as usize].is_some()).collect();
    let empty: Vec<u8> = (0..64u8).filter(|s| p.board[*s as usize].is_none()).collect();
    let s = occupied[t.pick(occupied.len())];
    let pc = p.board[s as usize].unwrap();
    if !empty.is_empty() {
        let d = empty[t.pick(empty.len())];
        let mut q = p.clone();
        q.board[s as usize] = None;
        q.board[d as usize] = Some(pc);
        out.push(("piece_moved", q));
        let mut q = p.clone();
        q.board[d as usize] = Some(Pc::new(t.pick(2) == 0, Kind::ALL[t.pick(5)]));
        out.push(("piece_added", q));
    }
    let mut q = p.clone();
    q.board[s as usize] = Some(Pc::new(!pc.white, pc.kind));
    out.push(("piece_recoloured", q));
    let mut q = p.clone();
    q.board[s as usize] = Some(Pc::new(pc.white, Kind::ALL[(pc.kind.idx() + 1 + t.pick(5)) % 6]));
    out.push(("piece_changed", q));
    if pc.kind != Kind::K {
        let mut q = p.clone();
        q.board[s as usize] = None;
        out.push(("piece_removed", q));
    }
    // two pieces swapped (different pieces)
    let s2 = occupied[t.pick(occupied.len())];
    if p.board[s2 as usize] != p.board[s as usize] {
        let mut q = p.clone();
        q.board.swap(s as usize, s2 as usize);
        out.push(("pieces_swapped", q));
    }
    out
}

pub fn run(run: &mut Run) -> &'static str {
    // ---- components, exhaustive
    let comps = all_components();
    let values: Vec<u64> = comps.iter().map(component_value).collect();
    let values_ref = &values;
    let comps_ref = &comps;
    run.exhaustive_part("components", RULE, (0..comps.len()).collect::<Vec<usize>>(), |i: &usize, st: &mut Stats| {
        st.eval();
        let v = values_ref[*i];
        st.nontrivial(i);
        if *i % 97 == 0 {
            st.nontrivial_sample(json!({"component": format!("{:?}", comps_ref[*i]), "word": format!("{v:#018x}")}));
        }
        if v == 0 {
            return Err(Fail::new("component:zero", format!("key component {:?} is zero", comps_ref[*i])));
        }
        for (j, w) in values_ref.iter().enumerate() {
            if j != *i && *w == v {
                return Err(Fail::new("component:duplicate", format!("key components {:?} and {:?} are equal ({v:#x})", comps_ref[*i], comps_ref[j])));
            }
        }
        Ok(())
    });
    run.part_extra("components", json!(comps.len()));

    // ---- histories
    let maps = KeyMaps::new();
    let maps_ref = &maps;
    let cases = run.tier.pick(700_000, 6_000_000);
    run.proptest_part("histories", RULE, hist_case(4..200), cases, |case: &HistCase, st: &mut Stats| {
        let mut obs = Obs { maps: maps_ref, path: 0, recurrences: 0, constructed_key: false };
        let mut cfg = Config::search_like(60);
        // walk-heavy from few roots: identities recur by different move orders
        cfg.mix = if matches!(case, HistCase::Tape(t) if t.first().map_or(false, |x| x % 2 == 0)) { Mix::Roots } else { Mix::General };
        if let Some((feat, root, ops)) = interpret(case, &cfg, st, &mut obs)? {
            feat.classes(st);
            st.class_n("identity_reached_by_another_path", obs.recurrences);
            let nt = feat.rook_home_capture_with_right > 0 || feat.ep_target_cleared > 0 || feat.null_with_ep_pending > 0 || feat.castles > 0 || feat.promotions > 0;
            if nt {
                st.nontrivial(&(root.clone(), ops.clone()));
                st.nontrivial_sample(json!({"root": root, "ops": ops}));
            } else {
                st.sample(json!({"root": root, "ops": ops}));
            }
        }
        Ok(())
    });
    run.part_extra("distinct_identities_in_map", json!(maps.identities()));
    let cases = run.tier.pick(320, 6_000);
    run.proptest_part("long_histories", RULE, hist_case(400..1500), cases, |case: &HistCase, st: &mut Stats| {
        let mut obs = Obs { maps: maps_ref, path: 0, recurrences: 0, constructed_key: false };
        if let Some((feat, root, ops)) = interpret(case, &Config::long(), st, &mut obs)? {
            if feat.max_depth >= 1025 {
                st.class("max_nesting_depth_reached_1025_or_more");
                st.nontrivial(&(root.clone(), ops.len(), crate::framework::hash_of(&ops)));
                st.nontrivial_sample(json!({"root": root, "ops": ops.len(), "max_depth": feat.max_depth}));
            }
        }
        Ok(())
    });

    let crashes: Vec<HistCase> = super::fuzzglue::campaign(run, "histories", 400_000, 12, 400).into_iter().map(HistCase::Tape).collect();
    if !crashes.is_empty() {
        run.exhaustive_part("fuzz_crashes", RULE, crashes, |case: &HistCase, st: &mut Stats| {
            let mut obs = Obs { maps: maps_ref, path: 0, recurrences: 0, constructed_key: true };
            interpret(case, &Config::search_like(60), st, &mut obs).map(|_| ())
        });
    }

    // ---- transpositions: two orders of two independent moves reach one identity, hence one key
    // (covered by the run-wide map above); twins: directed near-misses must differ in key
    let cases = run.tier.pick(250_000, 2_000_000);
    run.proptest_part("twins", RULE, pos_case(6..140), cases, |case: &PosCase, st: &mut Stats| {
        let tp_data: Vec<u16> = match case {
            PosCase::Tape(t) => t.iter().rev().copied().collect(),
            _ => (0..64u16).map(|i| i.wrapping_mul(40503)).collect(),
        };
        let mut tp = Tape::new(&tp_data);
        for gp in case.positions(Mix::General, 12, st) {
            let p = &gp.pos;
            let key = zobrist::hash(&to_game(p)).0;
            for (what, tw) in twins(p, &mut tp) {
                st.eval();
                st.class(what);
                debug_assert!(tw.identity() != p.identity());
                let k2 = zobrist::hash(&to_game(&tw)).0;
                st.nontrivial(&(p.identity(), tw.identity()));
                if st.want_nontrivial_sample() {
                    st.nontrivial_sample(json!({"position": p.to_fen(), "twin": tw.to_fen(), "difference": what}));
                }
                if k2 == key {
                    return Err(Fail::new(&format!("twin:same_key:{what}"), format!("{} and its twin {} ({what}) have the same key {key:#x}", p.to_fen(), tw.to_fen())).explicit(explicit_fen(p)));
                }
            }
            // the same position with other counters (as it is reached along a longer or shorter path) is
            // the same position: one key. The key computed from scratch and the key carried after a null
            // move and its take-back are both compared.
            for _ in 0..2 {
                st.eval();
                st.class("same_position_other_counters");
                let mut q = p.clone();
                q.halfmove = match tp.pick(8) {
                    0 => 0,
                    1 => 63 + tp.pick(3) as u32,
                    2 => 99 + tp.pick(3) as u32,
                    3 => 127 + tp.pick(3) as u32,
                    4 => 255 + tp.pick(3) as u32,
                    _ => tp.pick(300) as u32,
                };
                q.fullmove = 1 + q.halfmove / 2 + tp.pick(400) as u32;
                if q.halfmove == p.halfmove && q.fullmove == p.fullmove {
                    continue;
                }
                let gq = to_game(&q);
                let k2 = zobrist::hash(&gq).0;
                if k2 != key || gq.zobrist.0 != key {
                    return Err(Fail::new(
                        "counters_change_key",
                        format!("{} and {} are the same position (only the halfmove clock / move number differ) but have keys {key:#x} and {k2:#x} (carried {:#x})", p.to_fen(), q.to_fen(), gq.zobrist.0),
                    )
                    .explicit(explicit_fen(&q)));
                }
            }
        }
        Ok(())
    });
    RULE
}
