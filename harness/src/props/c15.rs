//! C15 Incrementally maintained evaluation state equals recomputation.
use super::hist::*;
use crate::adapter::*;
use crate::chess::game::Game;
use crate::engine::eval::{eval, IncrementalEvalFields};
use crate::framework::*;
use crate::refchess::Pos;
use serde_json::json;

pub const RULE: &str = "histories as in C02 (make / null move / take back, weighted toward promotions, e.p., castling, nested null moves); after every op the phase counter and the piece-square accumulator carried by the game must equal IncrementalEvalFields::init(board), and eval(game) must equal eval of the same position rebuilt from scratch (path independence). A 'long_histories' part nests 1100-1500 plies deep before unwinding. Non-trivial = history with a promotion, e.p. capture or castling followed by at least one take-back; distinct by (root, op list).";

struct Obs;

pub fn check_incremental(g: &Game, pos: &Pos) -> Result<(), Fail> {
    let fresh = IncrementalEvalFields::init(&g.board);
    if g.incremental_eval.phase_value != fresh.phase_value {
        return Err(Fail::new("incremental:phase", format!("{}: phase counter {} but recomputation gives {}", pos.to_fen(), g.incremental_eval.phase_value, fresh.phase_value)));
    }
    if g.incremental_eval.piece_square_tables != fresh.piece_square_tables {
        return Err(Fail::new("incremental:pst", format!("{}: piece-square accumulator {:?} but recomputation gives {:?}", pos.to_fen(), g.incremental_eval.piece_square_tables, fresh.piece_square_tables)));
    }
    let rebuilt = to_game(&from_game(g));
    let a = eval(g);
    let b = eval(&rebuilt);
    if a != b {
        return Err(Fail::new("incremental:eval_path_dependent", format!("{}: eval {} along the path but {} from scratch", pos.to_fen(), a.0, b.0)));
    }
    Ok(())
}

impl Observer for Obs {
    fn at_root(&mut self, g: &Game, pos: &Pos, _st: &mut Stats) -> Result<(), Fail> {
        check_incremental(g, pos)
    }
    fn after_op(&mut self, g: &Game, pos: &Pos, _op: &Op, _stack: &[Pos], st: &mut Stats) -> Result<(), Fail> {
        st.eval();
        check_incremental(g, pos)
    }
}

pub fn run(run: &mut Run) -> &'static str {
    let cases = run.tier.pick(1_200_000, 10_000_000);
    run.proptest_part("histories", RULE, hist_case(4..200), cases, |case: &HistCase, st: &mut Stats| {
        let mut obs = Obs;
        let mut cfg = Config::search_like(60);
        cfg.mix = crate::gen::Mix::General;
        if let Some((feat, root, ops)) = interpret(case, &cfg, st, &mut obs)? {
            feat.classes(st);
            if feat.undo_after_special > 0 {
                st.nontrivial(&(root.clone(), ops.clone()));
                st.nontrivial_sample(json!({"root": root, "ops": ops}));
            } else {
                st.sample(json!({"root": root, "ops": ops}));
            }
        }
        Ok(())
    });
    let crashes: Vec<HistCase> = super::fuzzglue::campaign(run, "histories", 400_000, 12, 400).into_iter().map(HistCase::Tape).collect();
    if !crashes.is_empty() {
        run.exhaustive_part("fuzz_crashes", RULE, crashes, |case: &HistCase, st: &mut Stats| {
            let mut obs = Obs;
            interpret(case, &Config::search_like(60), st, &mut obs).map(|_| ())
        });
    }
    let cases = run.tier.pick(320, 6_000);
    run.proptest_part("long_histories", RULE, hist_case(400..1500), cases, |case: &HistCase, st: &mut Stats| {
        let mut obs = Obs;
        if let Some((feat, root, ops)) = interpret(case, &Config::long(), st, &mut obs)? {
            if feat.max_depth >= 1025 {
                st.class("max_nesting_depth_reached_1025_or_more");
                st.nontrivial(&(root.clone(), ops.len(), crate::framework::hash_of(&ops)));
                st.nontrivial_sample(json!({"root": root, "ops": ops.len(), "max_depth": feat.max_depth}));
            }
        }
        Ok(())
    });
    RULE
}
