//! C18 SAN output identifies the move.
use super::common::*;
use crate::adapter::*;
use crate::chess::san;
use crate::framework::*;
use crate::gen::Mix;
use crate::refchess::{file_of, rank_of, Kind, Mv, Pos};
use serde_json::json;
use std::collections::HashMap;

pub const RULE: &str = "every legal move of generated legal positions (tactical mix: 2-4 like pieces incl. promoted ones reaching one square from the same file / same rank / neither, pinned duplicates, pawn captures next to other capturers on the same file, capturing promotions, castling that gives check, discovered and double checks). With s = format_move(g, m): no other legal move of g has text s; s without its suffix equals the reference SAN body (standard minimal disambiguation, x, =X, O-O/O-O-O); s ends in + or # exactly when the reference says the move gives check; parse_move(g, s) does not panic and returns m. Non-trivial = move whose piece kind has >= 2 legal movers to the same square, or capturing promotion, or castling with check; distinct by (position, move).";

pub fn check_position(p: &Pos, st: &mut Stats) -> Result<(), Fail> {
    let g = to_game(p);
    let legal = p.legal_moves();
    let fen = p.to_fen();
    let ex = || explicit_fen(p);
    let mut texts: HashMap<String, Mv> = HashMap::new();
    for m in &legal {
        let Some(em) = find_move(&g, m) else { continue }; // C01's business
        st.eval();
        let (body, suffix) = p.san_parts(m, &legal);
        let pc = p.board[m.from as usize].unwrap();
        let like_movers = legal
            .iter()
            .filter(|o| o.to == m.to && o.from != m.from && p.board[o.from as usize].map(|x| x.kind) == Some(pc.kind) && pc.kind != Kind::P && pc.kind != Kind::K)
            .count();
        let cap_promo = m.capture && m.promo.is_some();
        let castle_check = m.castle && !suffix.is_empty();
        if like_movers > 0 {
            st.class("like_movers");
            let same_file = legal.iter().any(|o| o.to == m.to && o.from != m.from && p.board[o.from as usize].map(|x| x.kind) == Some(pc.kind) && file_of(o.from) == file_of(m.from));
            let same_rank = legal.iter().any(|o| o.to == m.to && o.from != m.from && p.board[o.from as usize].map(|x| x.kind) == Some(pc.kind) && rank_of(o.from) == rank_of(m.from));
            st.class(match (same_file, same_rank) {
                (false, false) => "disambiguation:file(neither shared)",
                (false, true) => "disambiguation:file",
                (true, false) => "disambiguation:rank",
                (true, true) => "disambiguation:both",
            });
        }
        if cap_promo {
            st.class("capturing_promotion");
        }
        if castle_check {
            st.class("castling_with_check");
        }
        if m.castle {
            st.class("castling");
        }
        if suffix == "#" {
            st.class("mate");
        }
        if pc.kind == Kind::P && m.capture && legal.iter().any(|o| o.to == m.to && o.from != m.from && file_of(o.from) == file_of(m.from)) {
            st.class("pawn_capture_with_other_capturer_on_file");
        }
        if like_movers > 0 || cap_promo || castle_check {
            st.nontrivial(&(p.identity(), m.key()));
            if st.want_nontrivial_sample() {
                st.nontrivial_sample(json!({"fen": fen, "move": m.uci(), "san": format!("{body}{suffix}")}));
            }
        } else if st.want_sample() {
            st.sample(json!({"fen": fen, "move": m.uci(), "san": format!("{body}{suffix}")}));
        }
        let s = match catch(|| san::format_move(&g, em)) {
            Ok(s) => s,
            Err(pm) => return Err(Fail::new(&format!("writer_panic:{}", panic_signature(&pm)), format!("{fen}: format_move({}) panicked: {pm}", m.uci())).explicit(ex())),
        };
        // names this move and no other
        if let Some(other) = texts.insert(s.clone(), *m) {
            return Err(Fail::new("writer:ambiguous_text", format!("{fen}: moves {} and {} are both written {s:?}", other.uci(), m.uci())).explicit(ex()));
        }
        // conventional body
        let (got_body, got_suffix) = match s.chars().last() {
            Some('+') | Some('#') => (&s[..s.len() - 1], &s[s.len() - 1..]),
            _ => (s.as_str(), ""),
        };
        if got_body != body {
            let sig = if m.castle { "writer:body:castling" } else if like_movers > 0 { "writer:body:disambiguation" } else { "writer:body" };
            return Err(Fail::new(sig, format!("{fen}: move {} written {s:?}, standard notation is {body}{suffix}", m.uci())).explicit(ex()));
        }
        if got_suffix.is_empty() != suffix.is_empty() {
            let sig = if m.castle { "writer:suffix:castling" } else { "writer:suffix" };
            return Err(Fail::new(sig, format!("{fen}: move {} written {s:?} but it {} check", m.uci(), if suffix.is_empty() { "does not give" } else { "gives" })).explicit(ex()));
        }
        // reading it back
        match catch(|| san::parse_move(&g, &s)) {
            Err(pm) => {
                let sig = if cap_promo {
                    "reader_panic:capturing_promotion".to_string()
                } else if pc.kind == Kind::P && m.capture {
                    "reader_panic:pawn_capture".to_string()
                } else {
                    format!("reader_panic:{}", panic_signature(&pm))
                };
                return Err(Fail::new(&sig, format!("{fen}: parse_move({s:?}) panicked: {pm}")).explicit(ex()));
            }
            Ok(Err(e)) => return Err(Fail::new("reader:error", format!("{fen}: parse_move({s:?}) failed: {e:?}")).explicit(ex())),
            Ok(Ok(back)) => {
                if back != em {
                    return Err(Fail::new("reader:other_move", format!("{fen}: parse_move({s:?}) returns {back:?}, not {}", m.uci())).explicit(ex()));
                }
            }
        }
    }
    Ok(())
}

pub fn run(run: &mut Run) -> &'static str {
    let cases = run.tier.pick(700_000, 6_000_000);
    run.proptest_part("moves", RULE, pos_case(4..160), cases, |c: &PosCase, st: &mut Stats| {
        let mix = match c {
            PosCase::Tape(t) if t.last().map_or(false, |x| x % 4 == 0) => Mix::General,
            _ => Mix::Tactical,
        };
        for gp in c.positions(mix, 10, st) {
            check_position(&gp.pos, st)?;
        }
        Ok(())
    });
    // thorough: coverage-guided fuzzing of the walk tape (libFuzzer target `positions`: the C16, C18 and
    // C20 position oracles inside); crashing tapes are judged here by this property's oracle
    let crashes: Vec<PosCase> = super::fuzzglue::campaign(run, "positions", 250_000, 12, 400).into_iter().map(PosCase::Tape).collect();
    if !crashes.is_empty() {
        run.exhaustive_part("fuzz_crashes", RULE, crashes, |c: &PosCase, st: &mut Stats| {
            for gp in c.positions(Mix::General, 16, st) {
                check_position(&gp.pos, st)?;
            }
            Ok(())
        });
    }
    RULE
}
