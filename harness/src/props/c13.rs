//! C13 Every advertised option value is accepted and survivable.
use super::searchlib::{build, gen_game_opts, legal_in, run_search, Limit, SearchSpec};
use super::ucilib::*;
use crate::engine::search::PersistentState;
use crate::framework::*;
use proptest::strategy::Strategy;
use serde::{Deserialize, Serialize};
use serde_json::json;
use std::time::Duration;

pub const RULE: &str = "the spin options and their ranges are read from the engine's own 'uci' answer (name, min, max - not hard-coded). A session = 2-12 steps over {setoption <spin option> value v with v in {min, min+1, default, max-1, max, interior values}, isready, ucinewgame, position <generated game>, go depth 2-4 (also with clocks after Move Overhead was set), go movetime 1100-1400 (a search longer than a second)} in any order, before and between searches, then quit. Oracle on the shipped binary: every isready is answered by readyok; every go by exactly one bestmove that is legal in the position (reference model); nothing that looks like the panic hook's output; after quit the process exits with status 0. A 'long_sessions' part sets Hash (mostly to its smallest advertised value) and runs 256-300 shallow searches in a row. In-process twin (checked build): tt.resize(v) for boundary and interior sizes followed by a search. An 'overhead_with_any_clock' part sets up the time control in-process for a grid of (advertised Move Overhead value, own clock incl. values below the overhead and a missing clock, other clock, increment, movestogo, side): no panic. A 'smallest_hash_time_limited' part sets Hash to its smallest value and runs six searches without depth limit (go movetime 80-220, or clocks) on middlegame positions. Non-trivial = session that searches after setting Hash to a boundary value or after two different Hash values; distinct by session.";

#[derive(Serialize, Deserialize, Clone, Debug, PartialEq)]
pub enum Step {
    Set { option: String, value: u64 },
    IsReady,
    NewGame,
    Position { fen: String, moves: Vec<String> },
    Go { depth: u8, clocks: Option<(u32, u32)> },
    /// a search that lasts longer than a second (fixed move time)
    GoMoveTime { ms: u32 },
    /// the standard `debug on` / `debug off` command
    Debug { on: bool },
}

#[derive(Serialize, Deserialize, Clone, Debug)]
pub enum Case {
    Tape(Vec<u16>),
    Explicit { steps: Vec<Step> },
}

#[derive(Clone, Debug)]
pub struct Spin {
    name: String,
    default: u64,
    min: u64,
    max: u64,
}

pub fn read_options() -> Result<Vec<Spin>, String> {
    let mut e = Engine::spawn(&[])?;
    e.send("uci")?;
    let mut out = vec![];
    loop {
        let l = e.read_line(Duration::from_secs(20))?.ok_or("engine closed during uci")?;
        if l == "uciok" {
            break;
        }
        if let Some(rest) = l.strip_prefix("option name ") {
            if let Some((name, tail)) = rest.split_once(" type spin ") {
                let toks: Vec<&str> = tail.split_whitespace().collect();
                let get = |k: &str| toks.iter().position(|t| *t == k).and_then(|i| toks.get(i + 1)).and_then(|v| v.parse::<u64>().ok());
                if let (Some(d), Some(mn), Some(mx)) = (get("default"), get("min"), get("max")) {
                    out.push(Spin { name: name.to_string(), default: d, min: mn, max: mx });
                }
            }
        }
    }
    e.quit();
    Ok(out)
}

fn pick_value(t: &mut Tape, s: &Spin) -> u64 {
    let span = s.max - s.min;
    match t.pick(9) {
        0 => s.min,
        1 => s.min + 1.min(span),
        2 => s.default.clamp(s.min, s.max),
        3 => s.max - 1.min(span),
        4 => s.max,
        5 | 6 => s.min + (t.pick(17) as u64).min(span), // small interior
        _ => s.min + (t.raw() as u64 * (span + 1)) / 65536,
    }
}

fn from_tape(data: &[u16], spins: &[Spin]) -> Vec<Step> {
    let mut t = Tape::new(data);
    let n = 2 + t.pick(11);
    let mut steps = vec![];
    let mut have_position = false;
    if t.pick(3) == 0 {
        steps.push(Step::Debug { on: true });
    }
    for _ in 0..n {
        match t.pick(8) {
            0 | 1 | 2 if !spins.is_empty() => {
                // Hash is the interesting one: weight it up
                let s = if t.pick(3) != 0 { spins.iter().find(|s| s.name == "Hash").unwrap_or(&spins[0]) } else { &spins[t.pick(spins.len())] };
                steps.push(Step::Set { option: s.name.clone(), value: pick_value(&mut t, s) });
                // often use the new value at once: (ucinewgame,) (isready,) go
                if t.pick(2) == 0 {
                    if t.pick(2) == 0 {
                        steps.push(Step::NewGame);
                    }
                    if t.pick(3) == 0 {
                        steps.push(Step::IsReady);
                    }
                    if t.pick(10) == 0 {
                        steps.push(Step::GoMoveTime { ms: 1100 + t.pick(300) as u32 });
                    } else if t.pick(3) == 0 {
                        // no depth limit: iterative deepening runs as far as the time allows
                        steps.push(Step::GoMoveTime { ms: 60 + t.pick(120) as u32 });
                    } else {
                        steps.push(Step::Go { depth: 2 + t.pick(3) as u8, clocks: None });
                    }
                }
            }
            3 => steps.push(match t.pick(5) {
                0 | 1 => Step::IsReady,
                2 | 3 => Step::NewGame,
                _ => Step::Debug { on: t.pick(2) == 0 },
            }),
            4 => {
                if let Some((fen, moves, _, _)) = gen_game_opts(&mut t, 2, 8, false) {
                    steps.push(Step::Position { fen, moves });
                    have_position = true;
                }
            }
            _ => {
                let _ = have_position;
                if t.pick(4) == 0 {
                    steps.push(Step::GoMoveTime { ms: 60 + t.pick(120) as u32 });
                    continue;
                }
                let clocks = if t.pick(4) == 0 { Some((200 + t.pick(2000) as u32, 200 + t.pick(2000) as u32)) } else { None };
                steps.push(Step::Go { depth: 2 + t.pick(3) as u8, clocks });
            }
        }
    }
    steps.push(Step::IsReady);
    steps
}

fn run_session(steps: &[Step], spins: &[Spin], st: &mut Stats) -> Result<(), Fail> {
    st.eval();
    let ex = || json!({"Explicit": {"steps": steps}});
    let io = |e: String| Fail::new("binary:io", format!("engine process: {e}"));
    let mut e = Engine::spawn(&[]).map_err(io)?;
    let mut cur = crate::refchess::Pos::start();
    let mut hash_values: Vec<u64> = vec![];
    let mut searched_after_boundary = false;
    let mut searched_after_two = false;
    let fail = |e: &Engine, sig: &str, what: String| -> Fail {
        let tail: Vec<String> = e.transcript.iter().rev().take(8).rev().cloned().collect();
        Fail::new(sig, format!("{what}; last lines: {tail:?}")).explicit(ex())
    };
    for step in steps {
        match step {
            Step::Set { option, value } => {
                // domain: the value lies in the advertised range
                if let Some(s) = spins.iter().find(|s| &s.name == option) {
                    if *value < s.min || *value > s.max {
                        continue;
                    }
                }
                e.send(&format!("setoption name {option} value {value}")).map_err(|x| fail(&e, "option:engine_died", x))?;
                if option == "Hash" {
                    hash_values.push(*value);
                    st.class(&format!("hash:{}", match *value { 0 => "0(min)".to_string(), 1024 => "1024(max)".to_string(), v if v <= 16 => "1..16".to_string(), _ => "17..1023".to_string() }));
                } else {
                    st.class(&format!("set:{option}"));
                }
            }
            Step::IsReady => {
                e.send("isready").map_err(|x| fail(&e, "option:engine_died", x))?;
                loop {
                    match e.read_line(Duration::from_secs(60)) {
                        Ok(Some(l)) if l == "readyok" => break,
                        Ok(Some(l)) if l.contains("panic") => return Err(fail(&e, "option:panic", format!("panic output: {l}"))),
                        Ok(Some(_)) => {}
                        Ok(None) => return Err(fail(&e, "option:engine_died", "output ended while waiting for readyok".into())),
                        Err(x) => return Err(fail(&e, "option:no_readyok", x)),
                    }
                }
            }
            Step::Debug { on } => {
                e.send(if *on { "debug on" } else { "debug off" }).map_err(|x| fail(&e, "option:engine_died", x))?;
                st.class("debug_mode_switched");
            }
            Step::NewGame => {
                e.send("ucinewgame").map_err(|x| fail(&e, "option:engine_died", x))?;
                cur = crate::refchess::Pos::start();
                st.class("ucinewgame_in_session");
            }
            Step::Position { fen, moves } => {
                let spec = SearchSpec { fen: fen.clone(), moves: moves.clone(), limit: Limit::Depth(1) };
                let Some((p, _)) = build(&spec) else { continue };
                if p.legal_moves().is_empty() {
                    continue;
                }
                cur = p;
                let cmd = if moves.is_empty() { format!("position fen {fen}") } else { format!("position fen {fen} moves {}", moves.join(" ")) };
                e.send(&cmd).map_err(|x| fail(&e, "option:engine_died", x))?;
            }
            Step::Go { .. } | Step::GoMoveTime { .. } => {
                let cmd = match step {
                    Step::Go { depth, clocks: Some((w, b)) } => format!("go wtime {w} btime {b} depth {depth}"),
                    Step::Go { depth, clocks: None } => format!("go depth {depth}"),
                    Step::GoMoveTime { ms } => format!("go movetime {ms}"),
                    _ => unreachable!(),
                };
                e.send(&cmd).map_err(|x| fail(&e, "option:engine_died", x))?;
                loop {
                    match e.read_line(Duration::from_secs(120)) {
                        Ok(Some(l)) => {
                            if let Some(rest) = l.strip_prefix("bestmove ") {
                                let mv = rest.split_whitespace().next().unwrap_or("");
                                if !cur.legal_moves().iter().any(|m| m.uci() == mv) {
                                    return Err(fail(&e, "option:bestmove_illegal", format!("'{l}' is not legal in {}", cur.to_fen())));
                                }
                                break;
                            } else if l.contains("panic") {
                                return Err(fail(&e, "option:panic", format!("panic output: {l}")));
                            }
                        }
                        Ok(None) => return Err(fail(&e, "option:engine_died", format!("output ended during '{cmd}' (Hash values so far {hash_values:?})"))),
                        Err(x) => return Err(fail(&e, "option:no_bestmove", x)),
                    }
                }
                if let Some(last) = hash_values.last() {
                    if *last == 0 || *last == 1024 {
                        searched_after_boundary = true;
                    }
                }
                let mut d = hash_values.clone();
                d.dedup();
                if d.len() >= 2 {
                    searched_after_two = true;
                }
            }
        }
    }
    e.send("quit").map_err(|x| fail(&e, "option:engine_died", x))?;
    match e.wait_exit(Duration::from_secs(20)) {
        Some(0) => {}
        Some(c) => return Err(fail(&e, "option:exit_status", format!("exit status {c} after quit"))),
        None => return Err(fail(&e, "option:no_exit", "process still alive 20 s after quit".into())),
    }
    if searched_after_boundary {
        st.class("search_after_boundary_hash");
    }
    if searched_after_two {
        st.class("search_after_two_hash_values");
    }
    if searched_after_boundary || searched_after_two {
        st.nontrivial(&format!("{steps:?}"));
        if st.want_nontrivial_sample() {
            st.nontrivial_sample(json!(steps));
        }
    } else if st.want_sample() {
        st.sample(json!(steps));
    }
    Ok(())
}

pub fn run(run: &mut Run) -> &'static str {
    let tier = run.tier;
    // in-process twin
    let sizes: Vec<usize> = tier.pick(vec![0, 1, 2, 3, 7, 64, 255, 256, 1023, 1024], vec![0, 1, 2, 3, 5, 7, 16, 64, 100, 255, 256, 257, 511, 512, 1000, 1023, 1024]);
    let old = run.workers;
    run.workers = 4;
    run.exhaustive_part("resize_then_search", RULE, sizes, |mb: &usize, st: &mut Stats| {
        st.eval();
        st.nontrivial(mb);
        let mut state = PersistentState::new(1);
        state.tt.resize(*mb);
        let spec = SearchSpec { fen: "r3k2r/p1ppqpb1/bn2pnp1/3PN3/1p2P3/2N2Q1p/PPPBBPPP/R3K2R w KQkq - 0 1".into(), moves: vec![], limit: Limit::Depth(4) };
        let (pos, game) = build(&spec).unwrap();
        let out = run_search(&game, &mut state, &spec.limit, 0).map_err(|pm| Fail::new(&format!("resize_panic:{}", panic_signature(&pm)), format!("search after tt.resize({mb}) panicked: {pm}")))?;
        if !legal_in(&pos, out.best) {
            return Err(Fail::new("resize:bestmove_illegal", format!("search after tt.resize({mb}) returned illegal {:?}", out.best)));
        }
        st.nontrivial_sample(json!({"resize_mb": mb, "bestmove": format!("{:?}", out.best), "hashfull": out.infos.last().map(|i| i.hashfull)}));
        Ok(())
    });
    run.workers = old;
    if !engine_available() {
        run.assume("engine binary not available: only the in-process twin was checked");
        return RULE;
    }
    let spins = match read_options() {
        Ok(s) if !s.is_empty() => s,
        Ok(_) => infra("the engine advertises no spin option"),
        Err(e) => infra(&format!("cannot read the engine's options: {e}")),
    };
    // Move Overhead: every advertised value together with every kind of clock a `go` can carry (also
    // clocks far below the overhead, missing clocks, movestogo, increments): setting up the time
    // control must not crash. Exhaustive over a grid of boundary values.
    if let Some(ov) = spins.iter().find(|s| s.name == "Move Overhead") {
        use crate::engine::options::EngineOptions;
        use crate::engine::search::time_control::TimeStrategy;
        use crate::engine::search::{Clocks, TimeControl};
        let span = ov.max - ov.min;
        let mut ovs: Vec<u64> = vec![ov.min, ov.min + 1.min(span), ov.min + 2.min(span), ov.min + 10.min(span), ov.min + 50.min(span), ov.min + 100.min(span), ov.min + 299.min(span), ov.min + 300.min(span), ov.min + 500.min(span), ov.max - 1.min(span), ov.max, ov.default.clamp(ov.min, ov.max)];
        ovs.sort_unstable();
        ovs.dedup();
        let clocks: Vec<Option<u64>> = vec![None, Some(0), Some(1), Some(2), Some(9), Some(10), Some(11), Some(49), Some(99), Some(100), Some(299), Some(300), Some(301), Some(499), Some(999), Some(1000), Some(1001), Some(60_000)];
        let incs: Vec<Option<u64>> = vec![None, Some(0), Some(1), Some(100)];
        let mtgs: Vec<Option<u32>> = vec![None, Some(1), Some(2), Some(10), Some(40), Some(200)];
        let mut grid: Vec<(u64, Option<u64>, Option<u64>, Option<u64>, Option<u32>, bool)> = vec![];
        for o in &ovs {
            for c in &clocks {
                for other in [None, Some(0u64), Some(1000)] {
                    for i in &incs {
                        for m in &mtgs {
                            for white in [true, false] {
                                grid.push((*o, *c, other, *i, *m, white));
                            }
                        }
                    }
                }
            }
        }
        run.exhaustive_part("overhead_with_any_clock", RULE, grid, |(o, mine, other, inc, mtg, white): &(u64, Option<u64>, Option<u64>, Option<u64>, Option<u32>, bool), st: &mut Stats| {
            st.eval();
            if mine.map_or(true, |c| c < *o) {
                st.nontrivial(&(*o, *mine, *other, *inc, *mtg, *white));
                st.class("clock_below_the_overhead_or_missing");
            }
            let mut p = crate::refchess::Pos::start();
            p.white_to_move = *white;
            let game = crate::adapter::to_game(&p);
            let ms = |v: &Option<u64>| v.map(Duration::from_millis);
            let cl = if *white {
                Clocks { white_clock: ms(mine), black_clock: ms(other), white_increment: ms(inc), black_increment: None, moves_to_go: *mtg }
            } else {
                Clocks { white_clock: ms(other), black_clock: ms(mine), white_increment: None, black_increment: ms(inc), moves_to_go: *mtg }
            };
            let options = EngineOptions { move_overhead: *o as usize, ..EngineOptions::default() };
            catch(|| {
                let _ = TimeStrategy::new(&game, &TimeControl::Clocks(cl), &options);
            })
            .map_err(|pm| Fail::new(&format!("option:time_control_panic:{}", panic_signature(&pm)), format!("Move Overhead {o} with clock {mine:?} (other side {other:?}), increment {inc:?}, movestogo {mtg:?}, {} to move: setting up the time control panicked: {pm}", if *white { "White" } else { "Black" })))
        });
    }
    run.extra.insert("advertised_spin_options".into(), json!(spins.iter().map(|s| json!({"name": s.name, "default": s.default, "min": s.min, "max": s.max})).collect::<Vec<_>>()));
    let cases = tier.pick(112, 3_000);
    run.watchdog_secs = Some(600);
    run.workers = 8; // 1024 MB tables: keep memory bounded
    let spins_ref = &spins;
    let strat = tape(12..120).prop_map(Case::Tape);
    run.proptest_part("sessions", RULE, strat, cases, move |c: &Case, st: &mut Stats| match c {
        Case::Tape(t) => run_session(&from_tape(t, spins_ref), spins_ref, st),
        Case::Explicit { steps } => run_session(steps, spins_ref, st),
    });
    // long sessions on a boundary value: 300 shallow searches in a row after setting Hash (the
    // smallest advertised size weighs most), no ucinewgame in between
    let cases = tier.pick(24, 400);
    let strat = tape(40..160).prop_map(Case::Tape);
    run.proptest_part("long_sessions", RULE, strat, cases, move |c: &Case, st: &mut Stats| {
        let steps: Vec<Step> = match c {
            Case::Tape(data) => {
                let mut t = Tape::new(data);
                let hash = spins_ref.iter().find(|s| s.name == "Hash");
                let v = match (hash, t.pick(4)) {
                    (Some(h), 0 | 1) => h.min,
                    (Some(h), 2) => h.min + 1.min(h.max - h.min),
                    (Some(h), _) => h.min + (t.pick(4) as u64).min(h.max - h.min),
                    (None, _) => 1,
                };
                let mut steps = vec![Step::Set { option: "Hash".into(), value: v }];
                let n = [256usize, 257, 300][t.pick(3)];
                for i in 0..n {
                    if i % 64 == 0 {
                        if let Some((fen, moves, _, _)) = gen_game_opts(&mut t, 1, 6, false) {
                            steps.push(Step::Position { fen, moves });
                        }
                    }
                    steps.push(Step::Go { depth: 1 + (i % 2) as u8, clocks: None });
                }
                steps.push(Step::GoMoveTime { ms: 1100 });
                steps.push(Step::IsReady);
                steps
            }
            Case::Explicit { steps } => steps.clone(),
        };
        st.class("long_session");
        run_session(&steps, spins_ref, st)
    });
    // the smallest advertised Hash with searches that have no depth limit (fixed move time, clocks):
    // iterative deepening reaches depths of 5-10 on a table of a single slot, which the depth 2-4
    // searches of the other parts never do
    let cases = tier.pick(64, 1_000);
    let strat = tape(200..360).prop_map(Case::Tape);
    run.proptest_part("smallest_hash_time_limited", RULE, strat, cases, move |c: &Case, st: &mut Stats| {
        let steps: Vec<Step> = match c {
            Case::Tape(data) => {
                let mut t = Tape::new(data);
                let hash = spins_ref.iter().find(|s| s.name == "Hash");
                let v = match (hash, t.pick(5)) {
                    (Some(h), 4) => h.min + 1.min(h.max - h.min),
                    (Some(h), _) => h.min,
                    (None, _) => 1,
                };
                let mut steps = vec![];
                if t.pick(3) == 0 {
                    steps.push(Step::Debug { on: true });
                }
                steps.push(Step::Set { option: "Hash".into(), value: v });
                for _ in 0..6 {
                    if let Some((fen, moves, _, _)) = gen_game_opts(&mut t, 0, 6, false) {
                        steps.push(Step::Position { fen, moves });
                    }
                    if t.pick(4) == 0 {
                        steps.push(Step::Go { depth: 6, clocks: Some((300 + t.pick(600) as u32, 300 + t.pick(600) as u32)) });
                    } else {
                        steps.push(Step::GoMoveTime { ms: 80 + t.pick(140) as u32 });
                    }
                }
                steps.push(Step::IsReady);
                steps
            }
            Case::Explicit { steps } => steps.clone(),
        };
        st.class("smallest_hash_time_limited");
        run_session(&steps, spins_ref, st)
    });
    run.workers = old;
    RULE
}
