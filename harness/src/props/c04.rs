//! C04 A search always answers with one legal move and never crashes.
use super::searchlib::*;
use crate::engine::search::PersistentState;
use crate::framework::*;
use proptest::strategy::Strategy;
use serde::{Deserialize, Serialize};
use serde_json::json;

pub const RULE: &str = "case = hash size in {0,1,2,3,16 MB} (thorough: also 64) and a list of 1-7 searches run one after the other on one PersistentState; each search = (non-terminal legal position with game history: walks from repository roots, forced-mate themes so that scores jump to mate at depth >= 5, heavy material, tiny trees) x (depth 1..D | movetime 1-40 ms | clock tuples incl. 0, one-sided clocks, increments and moves-to-go >= 1, optionally with a depth). The earlier searches are of related or unrelated positions. A 'deep_iterations' part searches fortress positions (locked pawn chains; pawnless positions two plies before the fifty-move limit) under 150-500 ms so that iterative deepening reaches its last iterations (depth 200+). A 'long session' part runs 300 depth-1/2 searches on one state (crosses the 8-bit search counter). Oracle per search: the call returns (watchdog), does not panic (checked build: overflow, out-of-range index and debug assertions are panics), and the move is in the reference legal set. The same parts run again in the optimised 'fast' profile, and the same kind of case goes through the shipped binary ('position ..', 'go ..': one legal bestmove each, no panic-hook output, exit status 0). Non-trivial = search with >= 1 earlier search on its tables, or depth >= 5, or a mate score reported; distinct by (fen, moves, limit, hash, index).";

#[derive(Serialize, Deserialize, Clone, Debug)]
pub enum Case {
    Tape(Vec<u16>),
    Explicit { hash_mb: usize, searches: Vec<SearchSpec> },
}

fn gen_limit(t: &mut Tape, max_depth: u8) -> Limit {
    match t.pick(10) {
        0 | 1 => Limit::MoveTime([0u32, 1, 2, 5, 10, 20, 40][t.pick(7)]),
        2 | 3 => {
            let clock = |t: &mut Tape| -> Option<u32> {
                match t.pick(8) {
                    0 => None,
                    1 => Some(0),
                    2 => Some(1),
                    3 => Some(20),
                    4 => Some(200),
                    5 => Some(600),
                    6 => Some(1500),
                    _ => Some(1 + t.pick(2000) as u32),
                }
            };
            let inc = |t: &mut Tape| -> Option<u32> {
                match t.pick(4) {
                    0 => None,
                    1 => Some(0),
                    2 => Some(10),
                    _ => Some(t.pick(200) as u32),
                }
            };
            let mut wtime = clock(t);
            let btime = clock(t);
            if wtime.is_none() && btime.is_none() {
                wtime = Some(100); // at least one clock, else the command means "infinite"
            }
            Limit::Clocks {
                wtime,
                btime,
                winc: inc(t),
                binc: inc(t),
                movestogo: match t.pick(4) {
                    0 => None,
                    1 => Some(1),
                    2 => Some(2),
                    _ => Some(1 + t.pick(60) as u32),
                },
                depth: if t.pick(3) == 0 { Some(1 + t.pick(max_depth as usize) as u8) } else { None },
            }
        }
        _ => Limit::Depth(1 + t.pick(max_depth as usize) as u8),
    }
}

fn build_case(data: &[u16], tier: Tier, max_depth: u8) -> Option<(usize, Vec<SearchSpec>)> {
    let mut t = Tape::new(data);
    let hash_mb = pick_hash(&mut t, tier);
    let n = 1 + if t.pick(3) == 0 { 0 } else { t.pick(7) };
    let mut searches = vec![];
    let mut base: Option<(String, Vec<String>)> = None;
    for _ in 0..n {
        // related (same game, moved on a little) or unrelated position
        let spec = match (&base, t.pick(3)) {
            (Some((fen, moves)), 0 | 1) => {
                let mut mv = moves.clone();
                let sp = SearchSpec { fen: fen.clone(), moves: mv.clone(), limit: Limit::Depth(1) };
                if let Some((pos, _)) = build(&sp) {
                    let legal = pos.legal_moves();
                    if !legal.is_empty() {
                        let m = legal[t.pick(legal.len())];
                        if !pos.make(&m).legal_moves().is_empty() {
                            mv.push(m.uci());
                        }
                    }
                }
                SearchSpec { fen: fen.clone(), moves: mv, limit: gen_limit(&mut t, max_depth) }
            }
            _ => {
                let limit = gen_limit(&mut t, max_depth);
                // searches under a time limit also get capture storms of 4-9 queens a side (a stop or an
                // expired limit is then seen before the first root move has been searched); fixed-depth
                // searches of those would not end
                if !matches!(limit, Limit::Depth(_)) && t.pick(8) == 0 {
                    let p = if t.pick(2) == 0 { storm_theme_medium(&mut t)? } else { storm_theme_sized(&mut t, true)? };
                    if p.legal_moves().is_empty() {
                        return None;
                    }
                    SearchSpec { fen: p.to_fen(), moves: vec![], limit }
                } else {
                    let (fen, moves, _pos, _src) = gen_game(&mut t, 3, 10)?;
                    SearchSpec { fen, moves, limit }
                }
            }
        };
        let mut spec = spec;
        // (a related position of a heavy storm must not be searched to a fixed depth either)
        if let (Limit::Depth(_), Some((pos, _))) = (&spec.limit, build(&spec)) {
            if heavy_extra(&pos) > 20 {
                spec.limit = Limit::MoveTime(1 + t.pick(20) as u32);
            }
        }
        tame(&mut spec);
        base = Some((spec.fen.clone(), spec.moves.clone()));
        searches.push(spec);
    }
    Some((hash_mb, searches))
}

fn run_list(hash_mb: usize, searches: &[SearchSpec], st: &mut Stats) -> Result<(), Fail> {
    let ex = || json!({"Explicit": {"hash_mb": hash_mb, "searches": searches}});
    let mut state = PersistentState::new(hash_mb);
    st.class(&format!("hash_mb:{hash_mb}"));
    for (i, spec) in searches.iter().enumerate() {
        let Some((pos, game)) = build(spec) else { continue };
        if pos.legal_moves().is_empty() {
            continue;
        }
        st.eval();
        let out = match run_search(&game, &mut state, &spec.limit, 0) {
            Ok(o) => o,
            Err(pm) => {
                return Err(Fail::new(&format!("search_panic:{}", panic_signature(&pm)), format!("search #{i} at {} ({:?}, hash {hash_mb} MB) panicked: {pm}", pos.to_fen(), spec.limit)).explicit(ex()));
            }
        };
        if !legal_in(&pos, out.best) {
            return Err(Fail::new("bestmove_illegal", format!("search #{i} at {} ({:?}) returned {:?}, which is not legal there", pos.to_fen(), spec.limit, out.best)).explicit(ex()));
        }
        let mate = out.infos.iter().any(|x| x.mate.is_some());
        let deep = matches!(spec.limit, Limit::Depth(d) if d >= 5) || out.infos.len() >= 5;
        st.class(match spec.limit {
            Limit::Depth(_) => "limit:depth",
            Limit::MoveTime(_) | Limit::DepthUnderMoveTime { .. } => "limit:movetime",
            Limit::Clocks { .. } => "limit:clocks",
        });
        if out.infos.is_empty() {
            st.class("no_iteration_completed(panic_move)");
        }
        if mate {
            st.class("mate_score");
            if out.infos.iter().any(|x| x.mate.is_none()) && out.infos.len() >= 5 {
                st.class("score_jumps_to_mate_under_aspiration");
            }
        }
        if i > 0 || deep || mate {
            st.nontrivial(&(spec.fen.clone(), spec.moves.clone(), format!("{:?}", spec.limit), hash_mb, i));
            if st.want_nontrivial_sample() {
                st.nontrivial_sample(json!({"hash_mb": hash_mb, "index": i, "fen": pos.to_fen(), "limit": format!("{:?}", spec.limit), "bestmove": format!("{:?}", out.best), "iterations": out.infos.len()}));
            }
        } else if st.want_sample() {
            st.sample(json!({"hash_mb": hash_mb, "fen": pos.to_fen(), "limit": format!("{:?}", spec.limit), "bestmove": format!("{:?}", out.best)}));
        }
    }
    Ok(())
}

/// The same kind of case through the shipped binary: exit status, panic-hook output, bestmove legality.
fn run_list_binary(hash_mb: usize, searches: &[SearchSpec], st: &mut Stats) -> Result<(), Fail> {
    use super::ucilib::Engine;
    use std::time::Duration;
    let ex = || json!({"Explicit": {"hash_mb": hash_mb, "searches": searches}});
    let mut e = Engine::spawn(&[]).map_err(|x| Fail::new("binary:io", x))?;
    let fail = |e: &Engine, sig: &str, what: String| -> Fail {
        let tail: Vec<String> = e.transcript.iter().rev().take(8).rev().cloned().collect();
        Fail::new(sig, format!("{what}; last lines: {tail:?}")).explicit(ex())
    };
    e.send(&format!("setoption name Hash value {hash_mb}")).map_err(|x| fail(&e, "binary:engine_died", x))?;
    for (i, spec) in searches.iter().enumerate() {
        let Some((pos, _)) = build(spec) else { continue };
        if pos.legal_moves().is_empty() {
            continue;
        }
        st.eval();
        let pos_cmd = if spec.moves.is_empty() { format!("position fen {}", spec.fen) } else { format!("position fen {} moves {}", spec.fen, spec.moves.join(" ")) };
        let go = match &spec.limit {
            Limit::Depth(d) => format!("go depth {d}"),
            Limit::MoveTime(t) => format!("go movetime {t}"),
            Limit::DepthUnderMoveTime { depth, ms } => format!("go movetime {ms} depth {depth}"),
            Limit::Clocks { wtime, btime, winc, binc, movestogo, depth } => {
                let mut g = "go".to_string();
                for (k, v) in [("wtime", wtime), ("btime", btime), ("winc", winc), ("binc", binc), ("movestogo", movestogo)] {
                    if let Some(v) = v {
                        g.push_str(&format!(" {k} {v}"));
                    }
                }
                if let Some(d) = depth {
                    g.push_str(&format!(" depth {d}"));
                }
                g
            }
        };
        e.send(&pos_cmd).map_err(|x| fail(&e, "binary:engine_died", x))?;
        e.send(&go).map_err(|x| fail(&e, "binary:engine_died", x))?;
        loop {
            match e.read_line(Duration::from_secs(120)) {
                Ok(Some(l)) => {
                    if let Some(rest) = l.strip_prefix("bestmove ") {
                        let mv = rest.split_whitespace().next().unwrap_or("");
                        if !pos.legal_moves().iter().any(|m| m.uci() == mv) {
                            return Err(fail(&e, "binary:bestmove_illegal", format!("search #{i}: '{l}' is not legal in {}", pos.to_fen())));
                        }
                        break;
                    } else if l.contains("panic") {
                        return Err(fail(&e, "binary:panic", format!("search #{i} ({go}) at {}: {l}", pos.to_fen())));
                    }
                }
                Ok(None) => return Err(fail(&e, "binary:engine_died", format!("output ended during search #{i} ({go}) at {}", pos.to_fen()))),
                Err(x) => return Err(fail(&e, "binary:no_bestmove", format!("search #{i} ({go}) at {}: {x}", pos.to_fen()))),
            }
        }
        if i > 0 || matches!(spec.limit, Limit::Depth(d) if d >= 5) {
            st.nontrivial(&(spec.fen.clone(), spec.moves.clone(), format!("{:?}", spec.limit), hash_mb, i));
            if st.want_nontrivial_sample() {
                st.nontrivial_sample(json!({"hash_mb": hash_mb, "index": i, "position": pos_cmd, "go": go}));
            }
        }
    }
    e.send("quit").map_err(|x| fail(&e, "binary:engine_died", x))?;
    match e.wait_exit(Duration::from_secs(20)) {
        Some(0) => Ok(()),
        Some(c) => Err(fail(&e, "binary:exit_status", format!("exit status {c}"))),
        None => Err(fail(&e, "binary:no_exit", "still alive 20 s after quit".into())),
    }
}

#[derive(Serialize, Deserialize, Clone, Debug)]
pub struct Session {
    tape: Vec<u16>,
}

/// 300 shallow searches on one state, playing on with reference-chosen moves.
fn long_session(s: &Session, st: &mut Stats) -> Result<(), Fail> {
    let mut t = Tape::new(&s.tape);
    let hash_mb = [1usize, 0, 2][t.pick(3)];
    let Some((fen, moves, mut pos, _)) = gen_game(&mut t, 0, 4) else {
        st.discard();
        return Ok(());
    };
    let mut mv = moves;
    let mut state = PersistentState::new(hash_mb);
    let root_spec = SearchSpec { fen: fen.clone(), moves: mv.clone(), limit: Limit::Depth(1) };
    let Some((_, mut game)) = build(&root_spec) else { return Ok(()) };
    let mut n = 0u32;
    while n < 300 {
        st.eval();
        n += 1;
        let d = 1 + (n % 2) as u8;
        let out = run_search(&game, &mut state, &Limit::Depth(d), 0).map_err(|pm| {
            Fail::new(&format!("search_panic:{}", panic_signature(&pm)), format!("search #{n} of one session (hash {hash_mb} MB) at {} panicked: {pm}", pos.to_fen()))
        })?;
        if !legal_in(&pos, out.best) {
            return Err(Fail::new("bestmove_illegal", format!("search #{n} of one session at {} returned illegal {:?}", pos.to_fen(), out.best)));
        }
        if n > 255 {
            st.nontrivial(&(fen.clone(), mv.clone(), n));
        }
        // play on; restart from the root when the game ends
        let legal = pos.legal_moves();
        let m = legal[t.pick(legal.len())];
        let next = pos.make(&m);
        if next.legal_moves().is_empty() || mv.len() > 120 {
            let Some((p0, g0)) = build(&root_spec) else { break };
            pos = p0;
            game = g0;
            mv = root_spec.moves.clone();
        } else {
            let em = crate::adapter::find_move(&game, &m).unwrap();
            game.make_move(em);
            mv.push(m.uci());
            pos = next;
        }
    }
    st.class("sessions_crossing_256_searches");
    if st.want_nontrivial_sample() {
        st.nontrivial_sample(json!({"hash_mb": hash_mb, "root": fen, "searches": n}));
    }
    Ok(())
}

/// Root score as the engine's 16-bit value (mate n -> +-(32000 - plies)), for measuring swings.
fn raw_score(i: &InfoRec) -> i32 {
    match (i.mate, i.cp) {
        (Some(n), _) if n > 0 => 32000 - (2 * n as i32 - 1),
        (Some(n), _) => -32000 + 2 * (-(n as i32)),
        (_, Some(c)) => c as i32,
        _ => 0,
    }
}

pub fn run(run: &mut Run) -> &'static str {
    let tier = run.tier;
    let max_depth = tier.pick(7u8, 10u8);
    run.watchdog_secs = Some(tier.pick(240, 1800));
    // tool mode (VERIF_MINE_SWINGS=<cases>): search generated positions for root scores that differ by
    // more than 32767 between consecutive iterations from the fifth on (a clearly lost side finds a
    // mate, or the reverse) and print them; the finds are kept in roots_data::SCORE_SWINGS
    if let Ok(n) = std::env::var("VERIF_MINE_SWINGS") {
        let cases: u64 = n.parse().unwrap_or(20_000);
        run.watchdog_secs = Some(3600);
        run.proptest_part("mine_swings", RULE, tape(16..120).prop_map(Case::Tape), cases, move |c: &Case, st: &mut Stats| {
            let Case::Tape(data) = c else { return Ok(()) };
            let mut t = Tape::new(data);
            let Some((fen, moves, pos, _)) = gen_game(&mut t, 2, 10) else { return Ok(()) };
            if pos.legal_moves().is_empty() {
                return Ok(());
            }
            let mut spec = SearchSpec { fen, moves, limit: Limit::Depth(8) };
            tame(&mut spec);
            let Some((_, game)) = build(&spec) else { return Ok(()) };
            let mut state = PersistentState::new(2);
            let Ok(out) = run_search(&game, &mut state, &spec.limit, 0) else { return Ok(()) };
            st.eval();
            for w in out.infos.windows(2) {
                if w[1].depth >= 5 && (raw_score(&w[1]) - raw_score(&w[0])).abs() > 32767 {
                    println!("SWING depth {} {} -> {} : {}", w[1].depth, raw_score(&w[0]), raw_score(&w[1]), pos.to_fen());
                    st.class("swing_found");
                }
            }
            Ok(())
        });
        return RULE;
    }
    let cases = tier.pick(4_000, 60_000);
    let strat = tape(16..160).prop_map(Case::Tape);
    run.proptest_part("searches", RULE, strat, cases, move |c: &Case, st: &mut Stats| match c {
        Case::Tape(t) => match build_case(t, tier, max_depth) {
            Some((h, s)) => run_list(h, &s, st),
            None => {
                st.discard();
                Ok(())
            }
        },
        Case::Explicit { hash_mb, searches } => run_list(*hash_mb, searches, st),
    });
    if profile_name() == "checked" && super::ucilib::engine_available() {
        let cases = tier.pick(200, 4_000);
        let strat = tape(16..160).prop_map(Case::Tape);
        run.proptest_part("binary", RULE, strat, cases, move |c: &Case, st: &mut Stats| match c {
            Case::Tape(t) => match build_case(t, tier, max_depth.min(6)) {
                Some((h, s)) => run_list_binary(h, &s, st),
                None => {
                    st.discard();
                    Ok(())
                }
            },
            Case::Explicit { hash_mb, searches } => run_list_binary(*hash_mb, searches, st),
        });
    }
    // last iterations: positions whose tree is tiny (fortresses, two plies before the fifty-move limit)
    // searched under a time limit, so that iterative deepening reaches depth 200+ within the limit
    let cases = tier.pick(300, 6_000);
    let strat = tape(12..40).prop_map(Case::Tape);
    run.proptest_part("deep_iterations", RULE, strat, cases, move |c: &Case, st: &mut Stats| match c {
        Case::Tape(data) => {
            let mut t = Tape::new(data);
            let Some(p) = fortress_theme(&mut t) else {
                st.discard();
                return Ok(());
            };
            if p.legal_moves().is_empty() {
                st.discard();
                return Ok(());
            }
            let spec = SearchSpec { fen: p.to_fen(), moves: vec![], limit: Limit::MoveTime([150u32, 300, 500][t.pick(3)]) };
            let state_mb = [1usize, 16][t.pick(2)];
            let r = run_list(state_mb, std::slice::from_ref(&spec), st);
            // how deep did it get?
            if r.is_ok() {
                if let Some((_, game)) = build(&spec) {
                    let mut state = PersistentState::new(state_mb);
                    if let Ok(out) = run_search(&game, &mut state, &spec.limit, 0) {
                        let d = out.infos.last().map_or(0, |i| i.depth);
                        st.class(if d >= 220 { "reached_depth_220_or_more" } else if d >= 64 { "reached_depth_64..219" } else { "stayed_below_depth_64" });
                    }
                }
            }
            r
        }
        Case::Explicit { hash_mb, searches } => run_list(*hash_mb, searches, st),
    });
    let sessions = tier.pick(32, 320);
    let strat = tape(60..400).prop_map(|tape| Session { tape });
    run.proptest_part("long_session", RULE, strat, sessions, long_session);
    if let Ok(bin) = std::env::var("VERIF_FAST_BIN") {
        if profile_name() == "checked" && run.only_parts.is_empty() {
            run_sub_process(run, &bin, &["searches", "long_session", "deep_iterations"]);
        }
    }
    RULE
}
