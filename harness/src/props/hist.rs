//! Shared interpreter for histories: make / null move / take back on the engine `Game` and on a
//! stack of reference positions. C02, C03, C11 and C15 plug their own invariants in as observers.
use crate::adapter::*;
use crate::chess::game::Game;
use crate::framework::*;
use crate::gen::{self, Mix};
use crate::refchess::{file_of, rank_of, Kind, Mv, Pos};
use proptest::strategy::Strategy;
use serde::{Deserialize, Serialize};
use serde_json::json;

#[derive(Serialize, Deserialize, Clone, Debug)]
pub enum HistCase {
    Tape(Vec<u16>),
    /// explicit replay form: root FEN and ops ("e2e4", "e7e8q", "null", "undo")
    Explicit { fen: String, ops: Vec<String> },
}

pub fn hist_case(len: std::ops::Range<usize>) -> impl Strategy<Value = HistCase> + Sync {
    tape(len).prop_map(HistCase::Tape)
}

#[derive(Clone, Debug, PartialEq)]
pub enum Op {
    Make(Mv),
    Null,
    Undo,
}

impl Op {
    pub fn text(&self) -> String {
        match self {
            Op::Make(m) => m.uci(),
            Op::Null => "null".into(),
            Op::Undo => "undo".into(),
        }
    }
}

/// What happened in a history (for non-triviality rules and histograms).
#[derive(Default, Clone, Debug)]
pub struct Features {
    pub makes: u32,
    pub nulls: u32,
    pub undos: u32,
    pub castles: u32,
    pub ep_captures: u32,
    pub promotions: u32,
    pub captures: u32,
    pub rook_home_capture_with_right: u32,
    pub rights_lost: u32,
    pub ep_target_set: u32,
    pub ep_target_cleared: u32,
    pub null_with_ep_pending: u32,
    pub null_nested_under_2: u32,
    pub undo_after_special: u32,
    pub max_depth: usize,
}

impl Features {
    pub fn classes(&self, st: &mut Stats) {
        st.class_n("op:make", self.makes as u64);
        st.class_n("op:null", self.nulls as u64);
        st.class_n("op:undo", self.undos as u64);
        st.class_n("castling", self.castles as u64);
        st.class_n("ep_capture", self.ep_captures as u64);
        st.class_n("promotion", self.promotions as u64);
        st.class_n("capture", self.captures as u64);
        st.class_n("rook_home_capture_with_right", self.rook_home_capture_with_right as u64);
        st.class_n("rights_lost", self.rights_lost as u64);
        st.class_n("ep_target_set", self.ep_target_set as u64);
        st.class_n("ep_target_cleared", self.ep_target_cleared as u64);
        st.class_n("null_with_ep_pending", self.null_with_ep_pending as u64);
        st.class_n("null_nested_under_2", self.null_nested_under_2 as u64);
        st.class_n("undo_after_special", self.undo_after_special as u64);
    }
}

pub trait Observer {
    /// called with the state before a Make/Null is applied (for snapshots)
    fn before_op(&mut self, _g: &Game, _pos: &Pos, _op: &Op) {}
    /// called after every op with the engine game and the reference position it must equal;
    /// `stack` holds the reference positions below the current one (root first)
    fn after_op(&mut self, g: &Game, pos: &Pos, op: &Op, stack: &[Pos], st: &mut Stats) -> Result<(), Fail>;
    /// called once with the root before any op
    fn at_root(&mut self, _g: &Game, _pos: &Pos, _st: &mut Stats) -> Result<(), Fail> {
        Ok(())
    }
}

pub struct Config {
    pub mix: Mix,
    pub max_ops: usize,
    pub max_depth: usize,
    /// weights (make, undo, null) out of their sum
    pub w_make: usize,
    pub w_undo: usize,
    pub w_null: usize,
    /// real-game mode: no undo, no null (C11 game histories)
    pub unwind_at_end: bool,
    /// prefer moves that shuffle back (repetitions)
    pub shuffle_bias: bool,
}

impl Config {
    /// Very long histories: nesting beyond 1024 plies (1100-1500 ops, almost all of them makes), then
    /// fully unwound. Any bookkeeping with a fixed capacity or a wrapping index shows up here.
    pub fn long() -> Config {
        Config {
            mix: Mix::General,
            max_ops: 1500,
            max_depth: 1500,
            w_make: 40,
            w_undo: 1,
            w_null: 2,
            unwind_at_end: true,
            shuffle_bias: true,
        }
    }

    pub fn search_like(max_ops: usize) -> Config {
        Config {
            mix: Mix::General,
            max_ops,
            max_depth: 40,
            w_make: 11,
            w_undo: 5,
            w_null: 3,
            unwind_at_end: true,
            shuffle_bias: false,
        }
    }
}

fn parse_op(pos: &Pos, text: &str) -> Option<Op> {
    match text {
        "null" => Some(Op::Null),
        "undo" => Some(Op::Undo),
        t => pos.legal_moves().into_iter().find(|m| m.uci() == t).map(Op::Make),
    }
}

/// Run one history. Returns the features and the explicit op list (also attached to any failure).
pub fn interpret(case: &HistCase, cfg: &Config, st: &mut Stats, obs: &mut dyn Observer) -> Result<Option<(Features, String, Vec<String>)>, Fail> {
    let mut tape_store;
    let (root, mut tape, explicit_ops): (Pos, Option<Tape>, Option<Vec<String>>) = match case {
        HistCase::Tape(t) => {
            tape_store = Tape::new(t);
            match gen::gen_root(&mut tape_store, cfg.mix) {
                Some(r) => (r.pos, Some(tape_store), None),
                None => {
                    st.discard();
                    return Ok(None);
                }
            }
        }
        HistCase::Explicit { fen, ops } => match Pos::from_fen(fen) {
            Ok(p) if p.validate().is_ok() => (p, None, Some(ops.clone())),
            _ => {
                println!("replay root is not a legal position by the reference model; out of domain");
                return Ok(None);
            }
        },
    };
    let root_fen = root.to_fen();
    let mut g = to_game(&root);
    let mut stack: Vec<Pos> = vec![]; // positions below the current one
    let mut kinds: Vec<Op> = vec![]; // the op that led from stack[i] to the next position
    let mut cur = root.clone();
    let mut done: Vec<String> = vec![];
    let mut feat = Features::default();
    let attach = |f: Fail, done: &Vec<String>| -> Fail {
        let ex = json!({"Explicit": {"fen": root_fen, "ops": done}});
        f.explicit(ex)
    };
    obs.at_root(&g, &cur, st).map_err(|f| attach(f, &done))?;
    let n_ops = match (&mut tape, &explicit_ops) {
        (Some(t), _) => {
            if cfg.max_ops >= 1000 {
                cfg.max_ops - t.pick(400)
            } else {
                1 + t.pick(cfg.max_ops)
            }
        }
        (_, Some(o)) => o.len(),
        _ => 0,
    };
    let mut i = 0;
    let mut unwinding = false;
    loop {
        // choose the next op
        let op: Op = if let Some(ops) = &explicit_ops {
            if i >= ops.len() {
                break;
            }
            match parse_op(&cur, &ops[i]) {
                Some(Op::Undo) if stack.is_empty() => break,
                Some(o) => o,
                None => {
                    println!("replay op {} not applicable at {}; stopping there", ops[i], cur.to_fen());
                    break;
                }
            }
        } else if unwinding {
            if stack.is_empty() {
                break;
            }
            Op::Undo
        } else {
            let t = tape.as_mut().unwrap();
            if i >= n_ops {
                if cfg.unwind_at_end && !stack.is_empty() {
                    unwinding = true;
                    continue;
                }
                break;
            }
            let legal = cur.legal_moves();
            let can_make = !legal.is_empty() && stack.len() < cfg.max_depth;
            let can_undo = !stack.is_empty() && cfg.w_undo > 0;
            let can_null = cfg.w_null > 0
                && stack.len() < cfg.max_depth
                && !cur.in_check()
                && kinds.last() != Some(&Op::Null);
            let wm = if can_make { cfg.w_make } else { 0 };
            let wu = if can_undo { cfg.w_undo } else { 0 };
            let wn = if can_null { cfg.w_null } else { 0 };
            if wm + wu + wn == 0 {
                break;
            }
            let x = t.pick(wm + wu + wn);
            if x < wm {
                let idx = if cfg.shuffle_bias && t.pick(3) != 0 {
                    // prefer the move that undoes what this side did two plies ago
                    let back = if stack.len() >= 2 {
                        match &kinds[kinds.len() - 2] {
                            Op::Make(pm) => legal.iter().position(|m| m.from == pm.to && m.to == pm.from && m.promo.is_none()),
                            _ => None,
                        }
                    } else {
                        None
                    };
                    match back {
                        Some(b) if t.pick(4) != 0 => b,
                        _ => t.pick(legal.len()),
                    }
                } else if t.pick(4) == 0 {
                    t.pick(legal.len())
                } else {
                    gen::pick_weighted(t, &cur, &legal)
                };
                Op::Make(legal[idx])
            } else if x < wm + wu {
                Op::Undo
            } else {
                Op::Null
            }
        };
        i += 1;
        done.push(op.text());
        match &op {
            Op::Make(m) => {
                obs.before_op(&g, &cur, &op);
                let Some(em) = find_move(&g, m) else {
                    return Err(attach(
                        Fail::new("history:move_not_generated", format!("{}: engine does not generate the legal move {}", cur.to_fen(), m.uci())),
                        &done,
                    ));
                };
                let next = cur.make(m);
                // features
                feat.makes += 1;
                if m.castle {
                    feat.castles += 1;
                }
                if m.ep {
                    feat.ep_captures += 1;
                }
                if m.promo.is_some() {
                    feat.promotions += 1;
                }
                if m.capture {
                    feat.captures += 1;
                }
                if next.castle != cur.castle {
                    feat.rights_lost += 1;
                    if m.capture && [0u8, 7, 56, 63].contains(&m.to) {
                        feat.rook_home_capture_with_right += 1;
                    }
                }
                if next.ep.is_some() {
                    feat.ep_target_set += 1;
                }
                if cur.ep.is_some() {
                    feat.ep_target_cleared += 1;
                }
                g.make_move(em);
                stack.push(std::mem::replace(&mut cur, next));
                kinds.push(op.clone());
            }
            Op::Null => {
                obs.before_op(&g, &cur, &op);
                feat.nulls += 1;
                if cur.ep.is_some() {
                    feat.null_with_ep_pending += 1;
                }
                if kinds.iter().filter(|k| matches!(k, Op::Make(_))).count() >= 2 {
                    feat.null_nested_under_2 += 1;
                }
                let next = cur.make_null();
                g.make_null_move();
                stack.push(std::mem::replace(&mut cur, next));
                kinds.push(op.clone());
            }
            Op::Undo => {
                feat.undos += 1;
                let k = kinds.pop().unwrap();
                match &k {
                    Op::Make(m) => {
                        if m.castle || m.ep || m.promo.is_some() {
                            feat.undo_after_special += 1;
                        }
                        g.undo_move();
                    }
                    Op::Null => g.undo_null_move(),
                    Op::Undo => unreachable!(),
                }
                cur = stack.pop().unwrap();
            }
        }
        feat.max_depth = feat.max_depth.max(stack.len());
        obs.after_op(&g, &cur, &op, &stack, st).map_err(|f| attach(f, &done))?;
    }
    Ok(Some((feat, root_fen, done)))
}

pub fn is_special(m: &Mv) -> bool {
    m.castle || m.ep || m.promo.is_some()
}

pub fn moved_kind(p: &Pos, m: &Mv) -> Kind {
    p.board[m.from as usize].unwrap().kind
}

pub fn is_double_push(p: &Pos, m: &Mv) -> bool {
    moved_kind(p, m) == Kind::P && (rank_of(m.to) - rank_of(m.from)).abs() == 2 && file_of(m.to) == file_of(m.from)
}
