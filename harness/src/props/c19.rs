//! C19 The transposition table never confuses positions and keeps honest statistics (model-based).
use crate::adapter::*;
use crate::chess::moves::Move;
use crate::chess::zobrist::ZobristHash;
use crate::engine::eval::Eval;
use crate::engine::search::transposition::{NodeBound, SearchTranspositionTableData};
use crate::engine::transposition_table::{calculate_number_of_entries, TranspositionTable};
use crate::framework::*;
use proptest::strategy::Strategy;
use serde::{Deserialize, Serialize};
use serde_json::json;
use std::collections::HashMap;

pub const RULE: &str = "operation sequences over Insert(key, depth, bound, score, move; age = current generation, as the search does) / Probe(key) / NewSearch(x1..300) / Reset / Resize(mb) on TranspositionTable<SearchTranspositionTableData> of 0, 1, 2, 3 MB (thorough: also 4 and 7; 128-1024 MB tables in the parts big_table_edges and ops_1024mb). Keys are constructed to collide: key = slot + mult * entries for a few chosen slots, with multipliers that make the colliding keys differ only in low bits, only above bit 32 or only above bit 48, plus a few random keys. Reference model: slot -> set of admissible entries with the true (unbounded) search counter: a probe may return data only for exactly the stored key and then exactly the model's entry; entries of earlier searches always give way; within one search an exact entry is displaced only by an exact or deeper one; where the statement is silent (non-exact old entry, same search, new not deeper and not exact) both outcomes are kept and narrowed by the next observation; Reset and size-changing Resize empty the table (every probe misses, occupied == 0); occupied equals the model's count and occupancy() = floor(1000*occupied/entries) +- 1; no panic for any size or number of searches. A 'fill_indicator' part checks occupancy() at every 1/64 fill level (and around 2^32/1000 occupied slots) of tables from 1 to 256 MB (thorough: to 1024 MB). A 'big_table_edges' part runs the same model-based sequences (with many Resets) on tables of 128-500 MB whose sizes are not powers of two, with keys in the last and first slots and next to the 64 MB block boundaries. A 'new_game_after_many_searches' part runs 1-513 real searches (counts around 256 and 512 weigh most) on one search state, calls the engine's reset (what ucinewgame does) and demands an empty table. Non-trivial = sequence with a same-slot different-key insert and a NewSearch between colliding inserts; distinct by op list.";

#[derive(Serialize, Deserialize, Clone, Debug, PartialEq)]
pub enum Op {
    Insert { slot: u8, mult: u8, depth: u8, bound: u8, score: i16, mv: u16 },
    InsertRandom { key: u64, depth: u8, bound: u8, score: i16 },
    Probe { slot: u8, mult: u8 },
    ProbeRandom { key: u64 },
    NewSearch { times: u16 },
    Reset,
    Resize { mb: u16 },
}

#[derive(Serialize, Deserialize, Clone, Debug)]
pub struct Case {
    initial_mb: u16,
    slots: Vec<u32>,
    ops: Vec<Op>,
}

#[derive(Clone, Debug, PartialEq)]
struct Entry {
    key: u64,
    bound: u8,
    score: i16,
    depth: u8,
    mv: u16,
    search: u64, // true search counter at insertion
}

/// Multipliers of the table length added to a slot index: small ones give keys that differ in low
/// bits, the large ones keys that share a slot AND their low 32 / 48 bits (entries are 2^16 * mb),
/// so that a key comparison on part of the key cannot hide.
const MULTS: [u64; 8] = [0, 1, 2, 3, 1 << 16, 3 << 16, 1 << 32, 5 << 32];

fn bound_of(b: u8) -> NodeBound {
    match b % 3 {
        0 => NodeBound::Exact,
        1 => NodeBound::Upper,
        _ => NodeBound::Lower,
    }
}

fn mv_of(v: u16) -> Option<Move> {
    if v == 0 {
        return None;
    }
    let from = (v & 63) as u8;
    let to = ((v >> 6) & 63) as u8;
    if from == 0 && to == 0 {
        return None;
    }
    Some(Move::quiet(esq(from), esq(to)))
}

fn same(data: &SearchTranspositionTableData, e: &Entry) -> bool {
    data.bound == bound_of(e.bound) && data.eval == Eval(e.score) && data.depth == e.depth && data.best_move == mv_of(e.mv)
}

struct Model {
    mb: u16,
    entries: u64, // 0 = unknown layout (size 0)
    search: u64,
    slots: HashMap<u64, Vec<Entry>>, // admissible contents per occupied slot
    inserted_since_clear: Vec<Entry>, // for the size-0 weak oracle
}

fn entries_for(mb: u16) -> u64 {
    calculate_number_of_entries::<SearchTranspositionTableData>(mb as usize) as u64
}

pub fn sizes(tier: Tier) -> Vec<u16> {
    match tier {
        Tier::Quick => vec![0, 1, 1, 2, 3],
        // (large tables have their own parts: big_table_edges, fill_indicator, ops_1024mb; a 64 MB table
        // costs 30-100 ms per allocation or reset, which made this part take more than an hour)
        Tier::Thorough => vec![0, 1, 1, 2, 3, 2, 3, 4, 7],
    }
}

fn run_case(c: &Case, st: &mut Stats) -> Result<(), Fail> {
    st.eval();
    match simulate(c, st, false) {
        Ok(()) => Ok(()),
        Err((i, f)) => {
            // Is the discrepancy exactly what an 8-bit age explains (an entry whose age equals the
            // current one although it is 256*n searches old)? Then the model that aliases ages the
            // same way must accept the engine at this op; it is then used for the rest of the case.
            let mut scratch = Stats::default();
            match simulate(c, &mut scratch, true) {
                Ok(()) => Err(Fail::new("replacement:age_distance_multiple_of_256", f.msg)),
                Err((j, f2)) if j > i => Err(f2),
                Err(_) => Err(f),
            }
        }
    }
}

fn simulate(c: &Case, st: &mut Stats, alias_ages: bool) -> Result<(), (usize, Fail)> {
    let mut tt: TranspositionTable<SearchTranspositionTableData> = TranspositionTable::new(c.initial_mb as usize);
    let mut m = Model { mb: c.initial_mb, entries: entries_for(c.initial_mb), search: 0, slots: HashMap::new(), inserted_since_clear: vec![] };
    let mut collide = false;
    let mut newsearch_between = false;
    let mut last_insert_slot_search: HashMap<u64, u64> = HashMap::new();
    let mut crossed_256 = false;
    let mut slot_searches: HashMap<u64, Vec<u64>> = HashMap::new();
    let key_for = |m: &Model, slot: u8, mult: u8, slots: &Vec<u32>| -> u64 {
        let s = slots[slot as usize % slots.len()] as u64;
        let k = MULTS[mult as usize % MULTS.len()];
        if m.entries == 0 {
            s.wrapping_add(k.wrapping_mul(65536))
        } else {
            (s % m.entries).wrapping_add(k.wrapping_mul(m.entries))
        }
    };
    for (i, op) in c.ops.iter().enumerate() {
        let (mb0, search0) = (m.mb, m.search);
        let ctx = move |what: &str| format!("op #{i} {op:?} on a {mb0} MB table after {search0} searches: {what}");
        match op {
            Op::Insert { .. } | Op::InsertRandom { .. } => {
                let (key, depth, bound, score, mv) = match op {
                    Op::Insert { slot, mult, depth, bound, score, mv } => (key_for(&m, *slot, *mult, &c.slots), *depth, *bound, *score, *mv),
                    Op::InsertRandom { key, depth, bound, score } => (*key, *depth, *bound, *score, 0),
                    _ => unreachable!(),
                };
                let data = SearchTranspositionTableData { bound: bound_of(bound), eval: Eval(score), depth, age: tt.generation, best_move: mv_of(mv) };
                tt.insert(&ZobristHash(key), data);
                let new = Entry { key, bound, score, depth, mv, search: m.search };
                m.inserted_since_clear.push(new.clone());
                if m.entries > 0 {
                    let slot = key % m.entries;
                    if let Some(prev) = last_insert_slot_search.get(&slot) {
                        if *prev != m.search {
                            newsearch_between = true;
                        }
                    }
                    last_insert_slot_search.insert(slot, m.search);
                    slot_searches.entry(slot).or_default().push(m.search);
                    match m.slots.get_mut(&slot) {
                        None => {
                            m.slots.insert(slot, vec![new]);
                        }
                        Some(cands) => {
                            if cands.iter().any(|o| o.key != key) {
                                collide = true;
                            }
                            let mut next: Vec<Entry> = vec![];
                            for old in cands.iter() {
                                let different_search = if alias_ages { old.search % 256 != new.search % 256 } else { old.search != new.search };
                                let outcomes: &[bool] = if different_search {
                                    &[true] // earlier searches always give way
                                } else if bound_of(old.bound) == NodeBound::Exact {
                                    if bound_of(new.bound) == NodeBound::Exact || new.depth > old.depth { &[true] } else { &[false] }
                                } else if bound_of(new.bound) == NodeBound::Exact || new.depth > old.depth {
                                    &[true] // "always prefer deeper", "if the new node is exact always store it"
                                } else {
                                    &[true, false] // the statement is silent
                                };
                                for replaced in outcomes {
                                    let e = if *replaced { new.clone() } else { old.clone() };
                                    if !next.contains(&e) {
                                        next.push(e);
                                    }
                                }
                            }
                            *cands = next;
                        }
                    }
                }
            }
            Op::Probe { .. } | Op::ProbeRandom { .. } => {
                let key = match op {
                    Op::Probe { slot, mult } => key_for(&m, *slot, *mult, &c.slots),
                    Op::ProbeRandom { key } => *key,
                    _ => unreachable!(),
                };
                let got = tt.get(&ZobristHash(key)).cloned();
                if m.entries == 0 {
                    // layout unknown: a hit must be something stored under exactly this key
                    if let Some(d) = &got {
                        if !m.inserted_since_clear.iter().any(|e| e.key == key && same(d, e)) {
                            return Err((i, Fail::new("probe:foreign_data", ctx(&format!("probe returned {d:?}, which was never stored under this key")))));
                        }
                    }
                    continue;
                }
                let slot = key % m.entries;
                match m.slots.get_mut(&slot) {
                    None => {
                        if let Some(d) = got {
                            return Err((i, Fail::new("probe:hit_on_empty_slot", ctx(&format!("probe of an empty slot returned {d:?}")))));
                        }
                    }
                    Some(cands) => {
                        let consistent: Vec<Entry> = cands
                            .iter()
                            .filter(|e| match &got {
                                None => e.key != key,
                                Some(d) => e.key == key && same(d, e),
                            })
                            .cloned()
                            .collect();
                        if consistent.is_empty() {
                            let sig = match &got {
                                Some(_) if !cands.iter().any(|e| e.key == key) => "probe:wrong_key_hit",
                                Some(_) => "probe:not_the_admitted_entry",
                                None => "probe:miss_on_admitted_entry",
                            };
                            return Err((i, Fail::new(sig, ctx(&format!("probe of key {key:#x} returned {got:?}; the model admits {cands:?}")))));
                        }
                        *cands = consistent;
                    }
                }
            }
            Op::NewSearch { times } => {
                for _ in 0..*times {
                    tt.new_generation();
                    m.search += 1;
                }
                if m.search >= 256 {
                    crossed_256 = true;
                }
            }
            Op::Reset => {
                tt.reset();
                m.slots.clear();
                m.inserted_since_clear.clear();
                m.search = 0; // the counter restarts: ages are only compared within one table life
                last_insert_slot_search.clear();
                slot_searches.clear();
                check_empty(&tt, &m, c, i, op).map_err(|f| (i, f))?;
            }
            Op::Resize { mb } => {
                tt.resize(*mb as usize);
                if *mb != m.mb {
                    m.mb = *mb;
                    m.entries = entries_for(*mb);
                    m.slots.clear();
                    m.inserted_since_clear.clear();
                    m.search = 0;
                    last_insert_slot_search.clear();
                    slot_searches.clear();
                    check_empty(&tt, &m, c, i, op).map_err(|f| (i, f))?;
                }
            }
        }
        // statistics
        if m.entries > 0 {
            let occ = m.slots.len();
            #[cfg(tt_pub_occupied)]
            if tt.occupied != occ {
                return Err((i, Fail::new("stats:occupied", ctx(&format!("occupied = {} but {} slots hold an entry", tt.occupied, occ)))));
            }
            let want = (1000 * occ as u64 / m.entries) as i64;
            let got = tt.occupancy() as i64;
            if (got - want).abs() > 1 {
                return Err((i, Fail::new("stats:occupancy", ctx(&format!("occupancy() = {got} but {occ} of {} slots are occupied ({want} permille)", m.entries)))));
            }
        } else {
            let got = tt.occupancy();
            if got > 1000 {
                return Err((i, Fail::new("stats:occupancy", ctx(&format!("occupancy() = {got} on a zero-size table")))));
            }
        }
    }
    if alias_ages {
        return Ok(());
    }
    st.class(&format!("initial_mb:{}", c.initial_mb));
    if crossed_256 {
        st.class("more_than_255_searches");
    }
    if collide {
        st.class("colliding_keys_in_one_slot");
    }
    if collide && newsearch_between {
        st.nontrivial(&format!("{c:?}"));
        if st.want_nontrivial_sample() {
            st.nontrivial_sample(serde_json::to_value(c).unwrap());
        }
    } else if st.want_sample() {
        st.sample(serde_json::to_value(c).unwrap());
    }
    Ok(())
}

fn check_empty(tt: &TranspositionTable<SearchTranspositionTableData>, m: &Model, c: &Case, i: usize, op: &Op) -> Result<(), Fail> {
    #[cfg(tt_pub_occupied)]
    if tt.occupied != 0 {
        return Err(Fail::new("clear:occupied_not_zero", format!("op #{i} {op:?}: occupied = {} right after the table was emptied", tt.occupied)));
    }
    if tt.occupancy() != 0 {
        return Err(Fail::new("clear:occupancy_not_zero", format!("op #{i} {op:?}: occupancy() = {} right after the table was emptied", tt.occupancy())));
    }
    // every key used so far must miss
    for slot in 0..c.slots.len() as u8 {
        for mult in 0..MULTS.len() {
            let s = c.slots[slot as usize] as u64;
            let k = MULTS[mult];
            let key = if m.entries == 0 { s.wrapping_add(k.wrapping_mul(65536)) } else { (s % m.entries).wrapping_add(k.wrapping_mul(m.entries)) };
            if let Some(d) = tt.get(&ZobristHash(key)) {
                return Err(Fail::new("clear:entry_survives", format!("op #{i} {op:?}: key {key:#x} still answers {d:?} after the table was emptied")));
            }
        }
    }
    Ok(())
}

pub fn run(run: &mut Run) -> &'static str {
    use proptest::prelude::*;
    let tier = run.tier;
    let szs = sizes(tier);
    let szs2 = szs.clone();
    let op = prop_oneof![
        10 => (0u8..4, 0u8..8, prop_oneof![Just(0u8), Just(1), Just(2), Just(5), any::<u8>()], 0u8..3, prop_oneof![Just(0i16), Just(31990), Just(-31990), any::<i16>()], any::<u16>())
            .prop_map(|(slot, mult, depth, bound, score, mv)| Op::Insert { slot, mult, depth, bound, score, mv }),
        1 => (prop_oneof![4 => any::<u64>(), 1 => Just(0u64), 1 => Just(u64::MAX), 1 => Just(1u64), 1 => Just(1u64 << 63)], any::<u8>(), 0u8..3, any::<i16>()).prop_map(|(key, depth, bound, score)| Op::InsertRandom { key, depth, bound, score }),
        8 => (0u8..4, 0u8..8).prop_map(|(slot, mult)| Op::Probe { slot, mult }),
        1 => prop_oneof![4 => any::<u64>(), 1 => Just(0u64), 1 => Just(u64::MAX), 1 => Just(1u64), 1 => Just(1u64 << 63)].prop_map(|key| Op::ProbeRandom { key }),
        3 => prop_oneof![6 => Just(1u16), 2 => 2u16..6, 1 => Just(255u16), 1 => Just(256u16), 1 => 250u16..300].prop_map(|times| Op::NewSearch { times }),
        1 => Just(Op::Reset),
        1 => proptest::sample::select(szs2).prop_map(|mb| Op::Resize { mb }),
    ];
    let strat = (proptest::sample::select(szs), proptest::collection::vec(prop_oneof![6 => any::<u32>(), 1 => Just(0u32), 1 => Just(u32::MAX)], 1..4), proptest::collection::vec(op, 1..60))
        .prop_map(|(initial_mb, slots, ops)| Case { initial_mb, slots, ops });
    let cases = run.tier.pick(300_000, 3_000_000);
    run.proptest_part("ops", RULE, strat, cases, run_case);
    // fill indicator over the whole range of fill levels, also on large tables: distinct slots are
    // filled with real inserts up to a few thousand entries; beyond that the occupied-slot counter
    // (a public field) is set to the level a run of inserts would reach, and occupancy() must be the
    // permille of that level
    #[derive(Serialize, Deserialize, Clone, Debug)]
    struct Fill {
        mb: usize,
    }
    let fill_sizes: Vec<Fill> = tier.pick(vec![1usize, 3, 64, 66, 100, 256], vec![1, 2, 3, 16, 64, 65, 66, 67, 100, 128, 255, 256, 257, 512, 1000, 1024]).into_iter().map(|mb| Fill { mb }).collect();
    let old_workers = run.workers;
    run.workers = 3;
    run.exhaustive_part("fill_indicator", RULE, fill_sizes, |f: &Fill, st: &mut Stats| {
        let mut tt: TranspositionTable<SearchTranspositionTableData> = TranspositionTable::new(f.mb);
        let entries = entries_for(f.mb as u16).max(1);
        let entries = if f.mb > u16::MAX as usize { entries } else { calculate_number_of_entries::<SearchTranspositionTableData>(f.mb).max(1) as u64 };
        // real inserts into distinct slots
        let n_real = 5000u64.min(entries);
        for k in 0..n_real {
            tt.insert(&ZobristHash(k), SearchTranspositionTableData { bound: NodeBound::Exact, eval: Eval(0), depth: 1, age: tt.generation, best_move: None });
        }
        let check = |tt: &TranspositionTable<SearchTranspositionTableData>, occ: u64, st: &mut Stats| -> Result<(), Fail> {
            st.eval();
            let want = (1000 * occ / entries) as i64;
            let got = match catch(|| tt.occupancy()) {
                Ok(g) => g as i64,
                Err(pm) => return Err(Fail::new(&format!("stats:occupancy_panic:{}", panic_signature(&pm)), format!("occupancy() panicked with {occ} of {entries} slots occupied ({} MB): {pm}", f.mb))),
            };
            if (got - want).abs() > 1 {
                return Err(Fail::new("stats:occupancy", format!("occupancy() = {got} but {occ} of {entries} slots are occupied ({want} permille, {} MB table)", f.mb)));
            }
            Ok(())
        };
        check(&tt, n_real, st)?;
        st.nontrivial(&(f.mb, n_real));
        #[cfg(tt_pub_occupied)]
        {
            // levels a long run of inserts reaches: every 1/64 of the table, and around 2^32/1000
            let mut levels: Vec<u64> = (1..=64u64).map(|i| entries * i / 64).collect();
            for x in [4_294_966u64, 4_294_967, 4_294_968, 4_294_969, 8_589_935, 42_949_673] {
                if x <= entries {
                    levels.push(x);
                }
            }
            for occ in levels {
                if occ < n_real {
                    continue;
                }
                tt.occupied = occ as usize;
                check(&tt, occ, st)?;
                st.nontrivial(&(f.mb, occ));
            }
            st.nontrivial_sample(json!({"mb": f.mb, "slots": entries, "levels_checked": 64}));
        }
        Ok(())
    });
    run.workers = old_workers;
    // large tables of sizes that are not powers of two, with keys in the first and the last slots of
    // the table (where block-wise clearing, chunked loops and index arithmetic go wrong first): the
    // same model-based sequences, with Reset and Resize to other large sizes
    {
        const BIG: [u16; 12] = [128, 129, 130, 150, 193, 200, 250, 255, 257, 300, 384, 500];
        let op = prop_oneof![
            10 => (0u8..4, 0u8..8, prop_oneof![Just(0u8), Just(1), Just(5), any::<u8>()], 0u8..3, any::<i16>(), any::<u16>()).prop_map(|(slot, mult, depth, bound, score, mv)| Op::Insert { slot, mult, depth, bound, score, mv }),
            8 => (0u8..4, 0u8..8).prop_map(|(slot, mult)| Op::Probe { slot, mult }),
            2 => (1u16..3).prop_map(|times| Op::NewSearch { times }),
            3 => Just(Op::Reset),
            1 => proptest::sample::select(BIG.to_vec()).prop_map(|mb| Op::Resize { mb }),
        ];
        let strat = (prop_oneof![proptest::sample::select(BIG.to_vec()), 128u16..520], proptest::collection::vec((0u8..8, prop_oneof![3 => Just(0u32), 1 => 0u32..16]), 4), proptest::collection::vec(op, 4..40)).prop_map(|(initial_mb, edge, ops)| {
            let e = entries_for(initial_mb);
            // slot indices of the initial size: mostly the very last slots, also the first ones and the
            // neighbours of the 64 MB block boundaries
            let slots = edge
                .into_iter()
                .map(|(cat, j)| match cat {
                    0..=4 => (e - 1 - j as u64) as u32,
                    5 => j,
                    _ => (((1 + j as u64 % 2) << 22) + (j as u64 % 3)).saturating_sub(1).min(e - 1) as u32,
                })
                .collect();
            Case { initial_mb, slots, ops }
        });
        let old = run.workers;
        run.workers = 4;
        run.proptest_part("big_table_edges", RULE, strat, tier.pick(48, 1_500), |c: &Case, st: &mut Stats| {
            st.class("table_of_128_to_500_mb");
            run_case(c, st)
        });
        run.workers = old;
    }
    // "resetting empties the table ... for any number of searches", through the engine's own reset path
    // (what ucinewgame calls): k real searches on one state, then reset(), then the table must be empty
    {
        use super::searchlib::{build, run_search, Limit, SearchSpec};
        let cases = tier.pick(32, 400);
        let strat = (0usize..10, 0usize..3, proptest::collection::vec(any::<u16>(), 4..12));
        run.proptest_part("new_game_after_many_searches", RULE, strat, cases, |(ki, hi, picks): &(usize, usize, Vec<u16>), st: &mut Stats| {
            let k = [1usize, 2, 17, 255, 256, 256, 257, 511, 512, 513][*ki];
            let hash_mb = [1usize, 1, 2][*hi];
            let roots = crate::gen::roots();
            let mut state = crate::engine::search::PersistentState::new(hash_mb);
            let mut last_key = None;
            for i in 0..k {
                let r = &roots[(picks[i % picks.len()] as usize + i / picks.len()) % roots.len()];
                let spec = SearchSpec { fen: r.to_fen(), moves: vec![], limit: Limit::Depth(1 + (i % 2) as u8) };
                let Some((pos, game)) = build(&spec) else { continue };
                if pos.legal_moves().is_empty() || pos.count(true, crate::refchess::Kind::Q) + pos.count(false, crate::refchess::Kind::Q) > 4 {
                    continue;
                }
                run_search(&game, &mut state, &spec.limit, 0).map_err(|pm| Fail::new(&format!("search_panic:{}", panic_signature(&pm)), format!("search #{i} at {} panicked: {pm}", pos.to_fen())))?;
                last_key = Some((game.zobrist, pos.to_fen()));
            }
            st.eval();
            st.class(&format!("searches_before_the_reset:{k}"));
            st.nontrivial(&(k, hash_mb, picks.clone()));
            let filled = state.tt.occupancy();
            state.reset();
            if st.want_nontrivial_sample() {
                st.nontrivial_sample(json!({"searches": k, "hash_mb": hash_mb, "hashfull_before_reset": filled}));
            }
            #[cfg(tt_pub_occupied)]
            if state.tt.occupied != 0 {
                return Err(Fail::new("clear:occupied_not_zero", format!("after {k} searches (hashfull {filled}) and the engine's reset, occupied = {}", state.tt.occupied)));
            }
            if state.tt.occupancy() != 0 {
                return Err(Fail::new("clear:occupancy_not_zero", format!("after {k} searches (hashfull {filled}) and the engine's reset, occupancy() = {}", state.tt.occupancy())));
            }
            if let Some((key, fen)) = last_key {
                if state.tt.get(&key).is_some() {
                    return Err(Fail::new("clear:entry_survives", format!("after {k} searches and the engine's reset, the root of the last search ({fen}) is still found in the table")));
                }
            }
            Ok(())
        });
    }
    if tier == Tier::Thorough {
        // the largest advertised size: a handful of sequences on a 1024 MB table
        let big = (proptest::collection::vec(any::<u32>(), 1..4), proptest::collection::vec(
            prop_oneof![
                (0u8..4, 0u8..8, any::<u8>(), 0u8..3, any::<i16>(), any::<u16>()).prop_map(|(slot, mult, depth, bound, score, mv)| Op::Insert { slot, mult, depth, bound, score, mv }),
                (0u8..4, 0u8..8).prop_map(|(slot, mult)| Op::Probe { slot, mult }),
                (1u16..3).prop_map(|times| Op::NewSearch { times }),
            ], 1..40))
            .prop_map(|(slots, ops)| Case { initial_mb: 1024, slots, ops });
        let old = run.workers;
        run.workers = 4;
        run.proptest_part("ops_1024mb", RULE, big, 16, run_case);
        run.workers = old;
    }
    RULE
}
