//! C11 Repetition, fifty-move and dead-material draws follow the game history.
use super::hist::*;
use crate::adapter::*;
use crate::chess::game::Game;
use crate::framework::*;
use crate::gen::Mix;
use crate::refchess::{Kind, Pos};
use serde_json::json;

pub const RULE: &str = "game histories: real moves only, from legal roots incl. FEN roots with halfmove clock in {0,1,3,5,49,50,97..101,150} and no history, chosen with a shuffle bias (prefer undoing the move of two plies ago) so that repetitions, repetitions spoiled by a rights / e.p. difference and clocks crossing 100 are common; a second family interleaves search-like null moves and take-backs. After every step, against the reference's own list of earlier positions: is_repeated_position() <=> an earlier position since the last capture or pawn move has the same identity (both directions on real-move histories; with null moves on the stack only 'true => such a position exists'); is_stalemate_by_fifty_move_rule() <=> clock >= 100 and a legal move exists; is_stalemate_by_insufficient_material() is true for K v K and K+minor v K, false whenever a pawn, rook or queen is on the board or more than two minors remain, unconstrained otherwise. Non-trivial = history in which the expected repetition verdict is true at least once, or the clock crosses 99->100, or a repetition candidate is spoiled by a rights / e.p. difference; distinct by (root, op list).";

#[derive(Default)]
struct Obs {
    with_nulls: bool,
    rep_true: u32,
    crossed_100: u32,
    spoiled: u32,
    fifty_true: u32,
    fifty_no_moves: u32,
    dead_true: u32,
}

fn expected_repetition(cur: &Pos, stack: &[Pos]) -> (bool, bool) {
    // (exists identical earlier position since the last irreversible move, a candidate spoiled by rights/ep)
    let id = cur.identity();
    let mut spoiled = false;
    let mut next_halfmove = cur.halfmove;
    let mut next_is_null_successor = false;
    let _ = next_is_null_successor;
    for j in (0..stack.len()).rev() {
        // the step stack[j] -> successor was irreversible iff it reset the clock (null moves keep the clock)
        if next_halfmove == 0 {
            break;
        }
        let p = &stack[j];
        if p.identity() == id {
            return (true, spoiled);
        }
        if p.board == cur.board && p.white_to_move == cur.white_to_move {
            spoiled = true;
        }
        // a real reversible move increases the clock by one; a null move leaves it
        next_halfmove = p.halfmove;
        next_is_null_successor = false;
    }
    (false, spoiled)
}

pub fn material_verdict(p: &Pos) -> Option<bool> {
    let heavy = [Kind::P, Kind::R, Kind::Q]
        .iter()
        .any(|k| p.count(true, *k) + p.count(false, *k) > 0);
    let minors = p.count(true, Kind::N) + p.count(false, Kind::N) + p.count(true, Kind::B) + p.count(false, Kind::B);
    if heavy || minors > 2 {
        return Some(false);
    }
    if minors <= 1 {
        return Some(true);
    }
    None
}

fn check_all(o: &mut Obs, g: &Game, pos: &Pos, stack: &[Pos], st: &mut Stats) -> Result<(), Fail> {
    st.eval();
    let fen = pos.to_fen();
    // repetition
    let (want_rep, spoiled) = expected_repetition(pos, stack);
    let got_rep = g.is_repeated_position();
    if spoiled && !want_rep {
        o.spoiled += 1;
    }
    if want_rep {
        o.rep_true += 1;
    }
    if o.with_nulls {
        if got_rep && !want_rep {
            return Err(Fail::new("repetition:false_positive", format!("{fen}: engine reports a repetition but no earlier position since the last capture or pawn move is identical")));
        }
    } else if got_rep != want_rep {
        let sig = if got_rep { "repetition:false_positive" } else { "repetition:missed" };
        return Err(Fail::new(sig, format!("{fen} (halfmove clock {}, {} earlier positions): engine says repeated = {got_rep}, the history says {want_rep}", pos.halfmove, stack.len())));
    }
    // fifty-move rule
    let has_move = !pos.legal_moves().is_empty();
    let want_fifty = pos.halfmove >= 100 && has_move;
    if pos.halfmove >= 100 && !has_move {
        o.fifty_no_moves += 1;
    }
    if want_fifty {
        o.fifty_true += 1;
    }
    if pos.halfmove == 100 {
        o.crossed_100 += 1;
    }
    let got_fifty = g.is_stalemate_by_fifty_move_rule();
    if got_fifty != want_fifty {
        return Err(Fail::new("fifty_move", format!("{fen}: engine says fifty-move draw = {got_fifty}, but clock = {} and legal move exists = {has_move}", pos.halfmove)));
    }
    // dead material
    let got_dead = g.is_stalemate_by_insufficient_material();
    if got_dead {
        o.dead_true += 1;
    }
    if let Some(want) = material_verdict(pos) {
        if got_dead != want {
            return Err(Fail::new("insufficient_material", format!("{fen}: engine says insufficient material = {got_dead}, the rule says {want}")));
        }
    }
    Ok(())
}

impl Observer for Obs {
    fn at_root(&mut self, g: &Game, pos: &Pos, st: &mut Stats) -> Result<(), Fail> {
        check_all(self, g, pos, &[], st)
    }
    fn after_op(&mut self, g: &Game, pos: &Pos, _op: &Op, stack: &[Pos], st: &mut Stats) -> Result<(), Fail> {
        check_all(self, g, pos, stack, st)
    }
}

fn record(o: &Obs, st: &mut Stats, root: String, ops: Vec<String>) {
    st.class_n("repetition_expected", o.rep_true as u64);
    st.class_n("clock_reaches_100", o.crossed_100 as u64);
    st.class_n("candidate_spoiled_by_rights_or_ep", o.spoiled as u64);
    st.class_n("fifty_move_true", o.fifty_true as u64);
    st.class_n("clock_100_but_no_legal_move", o.fifty_no_moves as u64);
    st.class_n("dead_material_true", o.dead_true as u64);
    if o.rep_true > 0 || o.crossed_100 > 0 || o.spoiled > 0 {
        st.nontrivial(&(root.clone(), ops.clone()));
        st.nontrivial_sample(json!({"root": root, "ops": ops}));
    } else {
        st.sample(json!({"root": root, "ops": ops}));
    }
}

pub fn run(run: &mut Run) -> &'static str {
    let cases = run.tier.pick(240_000, 6_000_000);
    run.proptest_part("games", RULE, hist_case(4..200), cases, |case: &HistCase, st: &mut Stats| {
        let mut obs = Obs::default();
        let mix = match case {
            HistCase::Tape(t) if t.last().map_or(false, |x| x % 3 == 0) => Mix::General,
            _ => Mix::Sparse,
        };
        let cfg = Config {
            mix,
            max_ops: 80,
            max_depth: 200,
            w_make: 1,
            w_undo: 0,
            w_null: 0,
            unwind_at_end: false,
            shuffle_bias: true,
        };
        if let Some((_, root, ops)) = interpret(case, &cfg, st, &mut obs)? {
            record(&obs, st, root, ops);
        }
        Ok(())
    });
    let cases = run.tier.pick(80_000, 2_000_000);
    run.proptest_part("with_null_moves", RULE, hist_case(4..200), cases, |case: &HistCase, st: &mut Stats| {
        let mut obs = Obs { with_nulls: true, ..Obs::default() };
        let cfg = Config {
            mix: Mix::Sparse,
            max_ops: 80,
            max_depth: 60,
            w_make: 10,
            w_undo: 3,
            w_null: 3,
            unwind_at_end: false,
            shuffle_bias: true,
        };
        if let Some((_, root, ops)) = interpret(case, &cfg, st, &mut obs)? {
            record(&obs, st, root, ops);
        }
        Ok(())
    });
    RULE
}
