//! C11 Repetition, fifty-move and dead-material draws follow the game history.
use super::hist::*;
use crate::adapter::*;
use crate::chess::game::Game;
use crate::framework::*;
use crate::gen::Mix;
use crate::refchess::{Kind, Pos};
use crate::framework::Tape;
use serde_json::json;

pub const RULE: &str = "game histories: real moves only, from legal roots incl. FEN roots with halfmove clock in {0,1,3,5,49,50,97..101,150} and no history, chosen with a shuffle bias (prefer undoing the move of two plies ago) so that repetitions, repetitions spoiled by a rights / e.p. difference and clocks crossing 100 are common; a second family interleaves search-like null moves and take-backs. After every step, against the reference's own list of earlier positions: is_repeated_position() <=> an earlier position since the last capture or pawn move has the same identity (both directions on real-move histories; with null moves on the stack only 'true => such a position exists'); is_stalemate_by_fifty_move_rule() <=> clock >= 100 and a legal move exists; is_stalemate_by_insufficient_material() is true for K v K and K+minor v K, false whenever a pawn, rook or queen is on the board or more than two minors remain, unconstrained otherwise. Search level ('draw_available_search'): when some legal move leads to a position drawn by the game history (repetition - possibly more than 50 plies back -, fifty-move rule, dead material), a depth 1-3 search with that history must not report a negative score; 'far_back_repetition_search' applies the same demand to constructed games in which both kings walk closed tours of coprime lengths 3..8 while one side has spare pawns, so that the first recurrence of the whole position lies 24..112 plies back and the worse side is to move one ply before it. 'every_reply_is_a_draw_search': positions at halfmove clock 99 and more (a constructed family in which a quiet check can only be answered by a pawn move, and sparse positions) in which every legal move leads to an immediately drawn position must be scored exactly 0 at depth 1-4. After each of these searches (fresh table) the table must hold no draw score under the key of an earlier position of the game (a draw by history must not leak into a table that later games share). Non-trivial = history in which the expected repetition verdict is true at least once, or the clock crosses 99->100, or a repetition candidate is spoiled by a rights / e.p. difference; distinct by (root, op list).";

#[derive(Default)]
struct Obs {
    with_nulls: bool,
    rep_true: u32,
    crossed_100: u32,
    spoiled: u32,
    fifty_true: u32,
    fifty_no_moves: u32,
    dead_true: u32,
}

fn expected_repetition(cur: &Pos, stack: &[Pos]) -> (bool, bool) {
    // (exists identical earlier position since the last irreversible move, a candidate spoiled by rights/ep)
    let id = cur.identity();
    let mut spoiled = false;
    let mut next_halfmove = cur.halfmove;
    let mut next_is_null_successor = false;
    let _ = next_is_null_successor;
    for j in (0..stack.len()).rev() {
        // the step stack[j] -> successor was irreversible iff it reset the clock (null moves keep the clock)
        if next_halfmove == 0 {
            break;
        }
        let p = &stack[j];
        if p.identity() == id {
            return (true, spoiled);
        }
        if p.board == cur.board && p.white_to_move == cur.white_to_move {
            spoiled = true;
        }
        // a real reversible move increases the clock by one; a null move leaves it
        next_halfmove = p.halfmove;
        next_is_null_successor = false;
    }
    (false, spoiled)
}

thread_local! {
    static ENGINE: std::cell::RefCell<Option<super::ucilib::Engine>> = const { std::cell::RefCell::new(None) };
}

/// The same demand on the shipped binary: the game goes in as `position fen <root> moves ...`, so the
/// history that the UCI layer keeps for the given moves is what the search sees. No line of the
/// following shallow search may report a negative score when `drawing` is not empty.
fn binary_sees_the_draw(root: &str, ops: &[String], depth: u8, drawing: &[String], at: &str, prime_at: Option<usize>, st: &mut Stats) -> Result<(), Fail> {
    use std::time::Duration;
    if !super::ucilib::engine_available() {
        return Ok(());
    }
    ENGINE.with(|cell| -> Result<(), Fail> {
        let mut slot = cell.borrow_mut();
        if slot.is_none() {
            let mut e = super::ucilib::Engine::spawn(&[]).map_err(|e| Fail::new("binary:io", e))?;
            let _ = e.send("setoption name Hash value 1");
            *slot = Some(e);
        }
        let e = slot.as_mut().unwrap();
        e.transcript.clear();
        let cmd = if ops.is_empty() { format!("position fen {root}") } else { format!("position fen {root} moves {}", ops.join(" ")) };
        let r = (|| -> Result<(), Fail> {
            let io = |x: String| Fail::new("binary:engine_died_or_silent", format!("after '{cmd}': {x}"));
            e.send("ucinewgame").map_err(io)?;
            // every other case: an earlier position of the game (the one that is about to be repeated, if
            // any) is analysed first in the same session
            if let Some(n) = prime_at.filter(|n| *n <= ops.len()) {
                let pre = &ops[..n];
                e.send(&if pre.is_empty() { format!("position fen {root}") } else { format!("position fen {root} moves {}", pre.join(" ")) }).map_err(io)?;
                e.send(&format!("go depth {}", depth + 1)).map_err(io)?;
                loop {
                    match e.read_line(Duration::from_secs(60)) {
                        Ok(Some(l)) if l.starts_with("bestmove") => break,
                        Ok(Some(l)) if l.contains("panic") => return Err(io(format!("panic line: {l}"))),
                        Ok(Some(_)) => {}
                        Ok(None) => return Err(io("end of output".into())),
                        Err(x) => return Err(io(x)),
                    }
                }
            }
            e.send(&cmd).map_err(io)?;
            e.send(&format!("go depth {depth}")).map_err(io)?;
            loop {
                match e.read_line(Duration::from_secs(60)) {
                    Ok(Some(l)) => {
                        if l.starts_with("bestmove") {
                            return Ok(());
                        }
                        if l.contains("panic") {
                            return Err(io(format!("panic line: {l}")));
                        }
                        if l.starts_with("info ") {
                            if let Some(line) = super::searchlib::parse_info_line(&l) {
                                let toks: Vec<&str> = l.split_whitespace().collect();
                                let cp = toks.iter().position(|t| *t == "cp").and_then(|i| toks.get(i + 1)).and_then(|t| t.parse::<i32>().ok());
                                if line.mate.map_or(false, |n| n < 0) || cp.map_or(false, |c| c < 0) {
                                    return Err(Fail::new(
                                        "search:draw_not_taken_into_account(position_command)",
                                        format!("{at}, given as '{cmd}': the move(s) {drawing:?} lead to a position drawn by the game history, yet the engine reports '{l}'"),
                                    ));
                                }
                            }
                        }
                    }
                    Ok(None) => return Err(io("end of output".into())),
                    Err(x) => return Err(io(x)),
                }
            }
        })();
        if r.is_err() {
            if let Some(mut dead) = slot.take() {
                dead.kill();
            }
        } else {
            st.class("same_game_through_the_position_command_of_the_binary");
        }
        r
    })
}

pub fn material_verdict(p: &Pos) -> Option<bool> {
    let heavy = [Kind::P, Kind::R, Kind::Q]
        .iter()
        .any(|k| p.count(true, *k) + p.count(false, *k) > 0);
    let minors = p.count(true, Kind::N) + p.count(false, Kind::N) + p.count(true, Kind::B) + p.count(false, Kind::B);
    if heavy || minors > 2 {
        return Some(false);
    }
    if minors <= 1 {
        return Some(true);
    }
    None
}

fn check_all(o: &mut Obs, g: &Game, pos: &Pos, stack: &[Pos], st: &mut Stats) -> Result<(), Fail> {
    st.eval();
    let fen = pos.to_fen();
    // repetition
    let (want_rep, spoiled) = expected_repetition(pos, stack);
    let got_rep = g.is_repeated_position();
    if spoiled && !want_rep {
        o.spoiled += 1;
    }
    if want_rep {
        o.rep_true += 1;
    }
    if o.with_nulls {
        if got_rep && !want_rep {
            return Err(Fail::new("repetition:false_positive", format!("{fen}: engine reports a repetition but no earlier position since the last capture or pawn move is identical")));
        }
    } else if got_rep != want_rep {
        let sig = if got_rep { "repetition:false_positive" } else { "repetition:missed" };
        return Err(Fail::new(sig, format!("{fen} (halfmove clock {}, {} earlier positions): engine says repeated = {got_rep}, the history says {want_rep}", pos.halfmove, stack.len())));
    }
    // fifty-move rule
    let has_move = !pos.legal_moves().is_empty();
    let want_fifty = pos.halfmove >= 100 && has_move;
    if pos.halfmove >= 100 && !has_move {
        o.fifty_no_moves += 1;
    }
    if want_fifty {
        o.fifty_true += 1;
    }
    if pos.halfmove == 100 {
        o.crossed_100 += 1;
    }
    let got_fifty = g.is_stalemate_by_fifty_move_rule();
    if got_fifty != want_fifty {
        return Err(Fail::new("fifty_move", format!("{fen}: engine says fifty-move draw = {got_fifty}, but clock = {} and legal move exists = {has_move}", pos.halfmove)));
    }
    // dead material
    let got_dead = g.is_stalemate_by_insufficient_material();
    if got_dead {
        o.dead_true += 1;
    }
    if let Some(want) = material_verdict(pos) {
        if got_dead != want {
            return Err(Fail::new("insufficient_material", format!("{fen}: engine says insufficient material = {got_dead}, the rule says {want}")));
        }
    }
    Ok(())
}

impl Observer for Obs {
    fn at_root(&mut self, g: &Game, pos: &Pos, st: &mut Stats) -> Result<(), Fail> {
        check_all(self, g, pos, &[], st)
    }
    fn after_op(&mut self, g: &Game, pos: &Pos, _op: &Op, stack: &[Pos], st: &mut Stats) -> Result<(), Fail> {
        check_all(self, g, pos, stack, st)
    }
}

fn record(o: &Obs, st: &mut Stats, root: String, ops: Vec<String>) {
    st.class_n("repetition_expected", o.rep_true as u64);
    st.class_n("clock_reaches_100", o.crossed_100 as u64);
    st.class_n("candidate_spoiled_by_rights_or_ep", o.spoiled as u64);
    st.class_n("fifty_move_true", o.fifty_true as u64);
    st.class_n("clock_100_but_no_legal_move", o.fifty_no_moves as u64);
    st.class_n("dead_material_true", o.dead_true as u64);
    if o.rep_true > 0 || o.crossed_100 > 0 || o.spoiled > 0 {
        st.nontrivial(&(root.clone(), ops.clone()));
        st.nontrivial_sample(json!({"root": root, "ops": ops}));
    } else {
        st.sample(json!({"root": root, "ops": ops}));
    }
}

/// After a search on a fresh table: the table must hold no draw score under the key of a position that
/// is a draw only through *this* game's history (an earlier position of the game: whenever the search
/// meets it again it is a repetition). A later search of another game shares the table, and there the
/// same position is not repeated.
fn no_history_draw_in_table(state: &crate::engine::search::PersistentState, earlier: &[Pos], cur: &Pos, st: &mut Stats) -> Result<(), (String, String)> {
    let cur_id = cur.identity();
    for x in earlier {
        if x.identity() == cur_id {
            continue;
        }
        let key = to_game(x).zobrist;
        if let Some(e) = state.tt.get(&key) {
            st.class("table_entry_under_the_key_of_an_earlier_position_of_the_game");
            if e.eval == crate::engine::eval::Eval::DRAW {
                return Err((x.to_fen(), format!("{:?} depth {} eval {}", e.bound, e.depth, e.eval.0)));
            }
        }
    }
    Ok(())
}

pub fn run(run: &mut Run) -> &'static str {
    let cases = run.tier.pick(500_000, 6_000_000);
    run.proptest_part("games", RULE, hist_case(4..200), cases, |case: &HistCase, st: &mut Stats| {
        let mut obs = Obs::default();
        let mix = match case {
            HistCase::Tape(t) if t.last().map_or(false, |x| x % 3 == 0) => Mix::General,
            _ => Mix::Sparse,
        };
        let cfg = Config {
            mix,
            max_ops: 80,
            max_depth: 200,
            w_make: 1,
            w_undo: 0,
            w_null: 0,
            unwind_at_end: false,
            shuffle_bias: true,
        };
        if let Some((_, root, ops)) = interpret(case, &cfg, st, &mut obs)? {
            record(&obs, st, root, ops);
        }
        Ok(())
    });
    let cases = run.tier.pick(80_000, 2_000_000);
    run.proptest_part("with_null_moves", RULE, hist_case(4..200), cases, |case: &HistCase, st: &mut Stats| {
        let mut obs = Obs { with_nulls: true, ..Obs::default() };
        let cfg = Config {
            mix: Mix::Sparse,
            max_ops: 80,
            max_depth: 60,
            w_make: 10,
            w_undo: 3,
            w_null: 3,
            unwind_at_end: false,
            shuffle_bias: true,
        };
        if let Some((_, root, ops)) = interpret(case, &cfg, st, &mut obs)? {
            record(&obs, st, root, ops);
        }
        Ok(())
    });
    // search level: "score 0 reported for forced repetitions". If some legal move leads to a position
    // that is drawn by the history (repetition since the last capture or pawn move, fifty-move rule,
    // bare kings / king and one minor) then that child is scored as a draw at once, so the root score
    // of a depth 1-3 search - the best over all root moves, the root is never pruned - cannot be
    // negative. Games have up to 120 plies, so that the repeated position may lie far back.
    let cases = run.tier.pick(30_000, 600_000);
    run.proptest_part("draw_available_search", RULE, hist_case(4..260), cases, |case: &HistCase, st: &mut Stats| {
        use super::searchlib::{build, run_search, Limit, SearchSpec};
        struct Nop;
        impl Observer for Nop {
            fn after_op(&mut self, _g: &Game, _pos: &Pos, _op: &Op, _stack: &[Pos], _st: &mut Stats) -> Result<(), Fail> {
                Ok(())
            }
        }
        let cfg = Config { mix: Mix::Sparse, max_ops: 120, max_depth: 400, w_make: 1, w_undo: 0, w_null: 0, unwind_at_end: false, shuffle_bias: true };
        let Some((_, root, ops)) = interpret(case, &cfg, st, &mut Nop)? else { return Ok(()) };
        // replay on the reference model
        let Ok(mut cur) = Pos::from_fen(&root) else { return Ok(()) };
        let mut earlier: Vec<Pos> = vec![];
        for o in &ops {
            let Some(m) = cur.legal_moves().into_iter().find(|m| &m.uci() == o) else { return Ok(()) };
            let next = cur.make(&m);
            earlier.push(std::mem::replace(&mut cur, next));
        }
        let legal = cur.legal_moves();
        if legal.is_empty() {
            return Ok(());
        }
        let mut drawing: Vec<String> = vec![];
        let mut far_back = false;
        // game indices (number of moves played) at which a position stood that a drawing reply repeats
        let mut repeated_at: Vec<usize> = vec![];
        for m in &legal {
            let child = cur.make(m);
            let mut stack = earlier.clone();
            stack.push(cur.clone());
            let (rep, _) = expected_repetition(&child, &stack);
            let fifty = child.halfmove >= 100 && !child.legal_moves().is_empty();
            let dead = material_verdict(&child) == Some(true);
            if rep || fifty || dead {
                drawing.push(m.uci());
                if rep {
                    // how far back is the (nearest) identical position?
                    let id = child.identity();
                    if let Some(j) = stack.iter().rposition(|p| p.identity() == id) {
                        if stack.len() - j > 50 {
                            far_back = true;
                        }
                        repeated_at.push(j);
                    }
                }
            }
        }
        if drawing.is_empty() {
            return Ok(());
        }
        st.eval();
        let spec = SearchSpec { fen: root.clone(), moves: ops.clone(), limit: Limit::Depth(1 + (ops.len() % 3) as u8) };
        let ex = || json!({"Explicit": {"fen": root, "ops": ops}});
        let Some((_, game)) = build(&spec) else { return Ok(()) };
        let worse = crate::engine::eval::eval(&game).0 < -100;
        if worse {
            st.class("drawing_move_available_to_the_worse_side");
            st.nontrivial(&(root.clone(), ops.clone()));
            if st.want_nontrivial_sample() {
                st.nontrivial_sample(json!({"root": root, "plies": ops.len(), "position": cur.to_fen(), "drawing_moves": drawing}));
            }
        }
        if far_back {
            st.class("repeated_position_lies_more_than_50_plies_back");
        }
        let mut state = crate::engine::search::PersistentState::new(1);
        let out = run_search(&game, &mut state, &spec.limit, 0).map_err(|pm| Fail::new(&format!("search_panic:{}", panic_signature(&pm)), format!("search at {} panicked: {pm}", cur.to_fen())).explicit(ex()))?;
        if let Err((x, e)) = no_history_draw_in_table(&state, &earlier, &cur, st) {
            return Err(Fail::new("search:history_draw_stored_in_shared_table", format!("after searching {} with a history of {} plies, the table holds '{e}' under the key of {x}, a position that is drawn only because it occurred earlier in this game", cur.to_fen(), ops.len())).explicit(ex()));
        }
        for info in &out.infos {
            let negative = info.mate.map_or(false, |n| n < 0) || info.cp.map_or(false, |c| c < 0);
            if negative {
                return Err(Fail::new("search:draw_not_taken_into_account", format!("{} after {} plies: the move(s) {drawing:?} lead to a position drawn by the game history, yet the search reports '{}'", cur.to_fen(), ops.len(), info.text())).explicit(ex()));
            }
        }
        let Limit::Depth(d) = spec.limit else { return Ok(()) };
        // the same search on tables that an earlier analysis of this game has filled: the positions one
        // and two plies back are searched first (a ply deeper), on the same state and without a reset,
        // so that the table holds entries for the very positions that are repetitions now - written
        // when they were not yet
        let mut primed = crate::engine::search::PersistentState::new(1);
        // (the position that is about to be repeated, searched when it first stood on the board and was
        // no repetition yet, and the position before it; else the position two plies back)
        let mut prefixes: Vec<usize> = vec![];
        if let Some(j) = repeated_at.first() {
            if *j >= 1 {
                prefixes.push(*j - 1);
            }
            prefixes.push(*j);
        } else if ops.len() >= 2 {
            prefixes.push(ops.len() - 2);
        }
        for n in &prefixes {
            let pre = SearchSpec { fen: root.clone(), moves: ops[..*n].to_vec(), limit: Limit::Depth(d + 1) };
            if let Some((ppos, pgame)) = build(&pre) {
                if !ppos.legal_moves().is_empty() {
                    let _ = run_search(&pgame, &mut primed, &pre.limit, 0);
                }
            }
        }
        if !prefixes.is_empty() {
            st.class("search_on_tables_filled_by_earlier_analysis_of_the_same_game");
            let out = run_search(&game, &mut primed, &spec.limit, 0).map_err(|pm| Fail::new(&format!("search_panic:{}", panic_signature(&pm)), format!("search at {} panicked: {pm}", cur.to_fen())).explicit(ex()))?;
            for info in &out.infos {
                if info.mate.map_or(false, |n| n < 0) || info.cp.map_or(false, |c| c < 0) {
                    return Err(Fail::new(
                        "search:draw_not_taken_into_account(tables_from_earlier_analysis)",
                        format!("{} after {} plies, on tables filled by searching the positions one and two plies back: the move(s) {drawing:?} lead to a position drawn by the game history, yet the search reports '{}'", cur.to_fen(), ops.len(), info.text()),
                    )
                    .explicit(ex()));
                }
            }
        }
        binary_sees_the_draw(&root, &ops, d, &drawing, &cur.to_fen(), if ops.len() % 2 == 0 { repeated_at.first().copied().or(ops.len().checked_sub(2)) } else { None }, st).map_err(|f| f.explicit(ex()))
    });
    // the same oracle on constructed games whose only repetition lies far back: the two kings walk
    // closed tours of coprime lengths (3..8 squares) in opposite corners, so the whole position first
    // recurs after 2*lcm plies (24..112); one side has spare pawns, and the game stops one ply before
    // the recurrence with the worse side to move
    let cases = run.tier.pick(6_000, 200_000);
    run.proptest_part("far_back_repetition_search", RULE, hist_case(6..24), cases, |case: &HistCase, st: &mut Stats| {
        use super::searchlib::{build, run_search, Limit, SearchSpec};
        let (root, ops): (String, Vec<String>) = match case {
            HistCase::Tape(data) => {
                let mut t = Tape::new(data);
                const TOURS: [&[(i32, i32)]; 6] = [
                    &[(0, 0), (1, 1), (0, 1)],
                    &[(0, 0), (1, 0), (1, 1), (0, 1)],
                    &[(0, 0), (1, 1), (2, 1), (2, 0), (1, 0)],
                    &[(0, 0), (1, 0), (2, 0), (2, 1), (1, 1), (0, 1)],
                    &[(0, 0), (1, 1), (2, 1), (3, 1), (3, 0), (2, 0), (1, 0)],
                    &[(0, 0), (1, 0), (2, 0), (2, 1), (2, 2), (1, 2), (0, 2), (0, 1)],
                ];
                let tw = TOURS[t.pick(6)];
                let tb = TOURS[t.pick(6)];
                let (ow, ob) = (t.pick(tw.len()), t.pick(tb.len()));
                let wsq = |i: usize| crate::refchess::sq(tw[(ow + i) % tw.len()].0, tw[(ow + i) % tw.len()].1);
                let bsq = |i: usize| crate::refchess::sq(7 - tb[(ob + i) % tb.len()].0, 7 - tb[(ob + i) % tb.len()].1);
                let mut p = Pos::empty();
                p.board[wsq(0) as usize] = Some(crate::refchess::Pc::new(true, Kind::K));
                p.board[bsq(0) as usize] = Some(crate::refchess::Pc::new(false, Kind::K));
                // spare pawns for White on ranks 4-5 (never touched; they only make Black the worse side)
                let np = 2 + t.pick(3);
                for i in 0..np {
                    let f = (t.pick(8) as i32 + i as i32) % 8;
                    let s = crate::refchess::sq(f, 3 + (i % 2) as i32);
                    if p.board[s as usize].is_none() {
                        p.board[s as usize] = Some(crate::refchess::Pc::new(true, Kind::P));
                    }
                }
                p.white_to_move = true;
                p.halfmove = [0u32, 0, 3, 10][t.pick(4)];
                p.fullmove = 1 + t.pick(40) as u32;
                let l = {
                    let (a, b) = (tw.len(), tb.len());
                    let g = |mut x: usize, mut y: usize| {
                        while y != 0 {
                            let r = x % y;
                            x = y;
                            y = r;
                        }
                        x
                    };
                    a * b / g(a, b)
                };
                let plies = 2 * l - 1; // Black to move; his tour move recreates the root position
                let mut ops = vec![];
                for i in 0..plies {
                    let k = i / 2;
                    let (from, to) = if i % 2 == 0 { (wsq(k), wsq(k + 1)) } else { (bsq(k), bsq(k + 1)) };
                    ops.push(format!("{}{}", crate::refchess::sq_name(from), crate::refchess::sq_name(to)));
                }
                // colour swap for half of the cases
                if t.pick(2) == 1 {
                    p = p.mirror();
                    for o in ops.iter_mut() {
                        let b = o.as_bytes();
                        let flip = |r: u8| (b'1' + (b'8' - r)) as char;
                        *o = format!("{}{}{}{}", b[0] as char, flip(b[1]), b[2] as char, flip(b[3]));
                    }
                }
                if p.validate().is_err() {
                    st.discard();
                    return Ok(());
                }
                (p.to_fen(), ops)
            }
            HistCase::Explicit { fen, ops } => (fen.clone(), ops.clone()),
        };
        let spec = SearchSpec { fen: root.clone(), moves: ops.clone(), limit: Limit::Depth(1 + (ops.len() % 3) as u8) };
        let ex = || json!({"Explicit": {"fen": root, "ops": ops}});
        let Some((cur, game)) = build(&spec) else {
            st.discard();
            return Ok(());
        };
        // reference: which replies lead to a position drawn by the history?
        let Ok(mut rp) = Pos::from_fen(&root) else { return Ok(()) };
        let mut earlier: Vec<Pos> = vec![];
        for o in &ops {
            let Some(m) = rp.legal_moves().into_iter().find(|m| &m.uci() == o) else { return Ok(()) };
            let next = rp.make(&m);
            earlier.push(std::mem::replace(&mut rp, next));
        }
        earlier.push(cur.clone());
        let drawing: Vec<String> = cur
            .legal_moves()
            .iter()
            .filter(|m| {
                let child = cur.make(m);
                expected_repetition(&child, &earlier).0 || (child.halfmove >= 100 && !child.legal_moves().is_empty()) || material_verdict(&child) == Some(true)
            })
            .map(|m| m.uci())
            .collect();
        // the predicate itself after every reply, on the engine game with its full history: the first
        // recurrence of these games lies 24-112 plies back, i.e. also beyond 100 plies with the clock
        // above 100 (the fifty-move rule is no reason to stop looking: it is not automatic)
        for m in cur.legal_moves() {
            let child = cur.make(&m);
            let (want, _) = expected_repetition(&child, &earlier);
            let Some(em) = find_move(&game, &m) else { continue };
            let mut g2 = game.clone();
            g2.make_move(em);
            let got = g2.is_repeated_position();
            if want && child.halfmove > 100 {
                st.class("repetition_more_than_100_plies_back_with_clock_above_100");
            }
            if got != want {
                let sig = if got { "repetition:false_positive" } else { "repetition:missed" };
                return Err(Fail::new(sig, format!("{} after {} plies, reply {}: engine says repeated = {got}, the history says {want} (halfmove clock {})", cur.to_fen(), ops.len(), m.uci(), child.halfmove)).explicit(ex()));
            }
        }
        if drawing.is_empty() {
            st.class("no_drawing_reply(control)");
            return Ok(());
        }
        st.eval();
        st.class(if ops.len() + 1 > 50 && cur.halfmove < 99 { "first_recurrence_more_than_50_plies_back" } else if cur.halfmove >= 99 { "fifty_move_limit_reached" } else { "first_recurrence_within_50_plies" });
        if crate::engine::eval::eval(&game).0 < -100 {
            st.nontrivial(&(root.clone(), ops.len()));
            if st.want_nontrivial_sample() {
                st.nontrivial_sample(json!({"root": root, "plies": ops.len(), "position": cur.to_fen(), "drawing_moves": drawing}));
            }
        }
        let mut state = crate::engine::search::PersistentState::new(1);
        let out = run_search(&game, &mut state, &spec.limit, 0).map_err(|pm| Fail::new(&format!("search_panic:{}", panic_signature(&pm)), format!("search at {} panicked: {pm}", cur.to_fen())).explicit(ex()))?;
        if let Err((x, e)) = no_history_draw_in_table(&state, &earlier, &cur, st) {
            return Err(Fail::new("search:history_draw_stored_in_shared_table", format!("after searching {} with a history of {} plies, the table holds '{e}' under the key of {x}, a position that is drawn only because it occurred earlier in this game", cur.to_fen(), ops.len())).explicit(ex()));
        }
        for info in &out.infos {
            if info.mate.map_or(false, |n| n < 0) || info.cp.map_or(false, |c| c < 0) {
                return Err(Fail::new("search:draw_not_taken_into_account", format!("{} after {} plies: the move(s) {drawing:?} lead to a position drawn by the game history, yet the search reports '{}'", cur.to_fen(), ops.len(), info.text())).explicit(ex()));
            }
        }
        Ok(())
    });
    // the other direction at the fifty-move limit: when *every* legal move leads to a position that is
    // drawn at once (clock reaches 100 and the opponent still has a legal move - also when he is in
    // check -, or dead material), every score the search reports must be exactly 0
    let cases = run.tier.pick(12_000, 300_000);
    run.proptest_part("every_reply_is_a_draw_search", RULE, hist_case(24..80), cases, |case: &HistCase, st: &mut Stats| {
        use super::searchlib::{build, run_search, Limit, SearchSpec};
        use crate::refchess::{sq, Pc};
        let (root, depth): (Pos, u8) = match case {
            HistCase::Tape(data) => {
                let mut t = Tape::new(data);
                let p = if t.pick(2) == 0 {
                    // cornered king behind its own pawns, a rook holding the g-file, a bishop or queen one
                    // quiet move away from checking on the long diagonal: the only answer to that check is
                    // a pawn move (which would reset the clock if the rule had not already drawn the game)
                    let mut p = Pos::empty();
                    p.board[sq(7, 7) as usize] = Some(Pc::new(false, Kind::K));
                    p.board[sq(7, 6) as usize] = Some(Pc::new(false, Kind::P));
                    p.board[sq(5, 6) as usize] = Some(Pc::new(false, Kind::P));
                    p.board[sq(6, t.pick(5) as i32) as usize] = Some(Pc::new(true, Kind::R));
                    let checker = if t.pick(3) == 0 { Kind::Q } else { Kind::B };
                    let from = [sq(2, 0), sq(0, 2), sq(3, 1), sq(1, 3), sq(4, 2), sq(2, 4)][t.pick(6)];
                    if p.board[from as usize].is_some() {
                        return Ok(());
                    }
                    p.board[from as usize] = Some(Pc::new(true, checker));
                    for _ in 0..t.pick(3) {
                        let s = sq(t.pick(5) as i32, 6);
                        if p.board[s as usize].is_none() {
                            p.board[s as usize] = Some(Pc::new(false, Kind::P));
                        }
                    }
                    for _ in 0..8 {
                        let s = t.pick(64) as u8;
                        if p.board[s as usize].is_none() && crate::refchess::rank_of(s) < 5 {
                            p.board[s as usize] = Some(Pc::new(true, Kind::K));
                            break;
                        }
                    }
                    p.white_to_move = true;
                    p.halfmove = 99;
                    p.fullmove = 60 + t.pick(60) as u32;
                    if t.pick(2) == 0 {
                        p = p.mirror();
                    }
                    p
                } else {
                    let Some(g) = crate::gen::gen_root(&mut t, Mix::Sparse) else {
                        st.discard();
                        return Ok(());
                    };
                    let mut p = g.pos;
                    p.ep = None;
                    p.halfmove = [99u32, 99, 100, 130][t.pick(4)];
                    p.fullmove = p.fullmove.max(70);
                    p
                };
                (p, 1 + t.pick(4) as u8)
            }
            HistCase::Explicit { fen, ops } => match Pos::from_fen(fen) {
                Ok(p) => (p, 1 + (ops.len() % 4) as u8),
                Err(_) => return Ok(()),
            },
        };
        if root.validate().is_err() {
            st.discard();
            return Ok(());
        }
        let legal = root.legal_moves();
        if legal.is_empty() {
            st.discard();
            return Ok(());
        }
        let mut checks_with_only_irreversible_answers = 0;
        for m in &legal {
            let child = root.make(m);
            let replies = child.legal_moves();
            // (a child without legal moves is mate or stalemate: neither is one of the three rules of this
            // property, and a shallow search sees stalemate only when it looks one ply further)
            let drawn = !replies.is_empty() && (child.halfmove >= 100 || material_verdict(&child) == Some(true));
            if !drawn {
                st.class("some_reply_is_not_a_draw(control)");
                return Ok(());
            }
            if child.in_check() && !replies.is_empty() && replies.iter().all(|r| r.capture || child.board[r.from as usize].map_or(false, |pc| pc.kind == Kind::P)) {
                checks_with_only_irreversible_answers += 1;
            }
        }
        st.eval();
        st.class("every_reply_is_a_draw");
        if checks_with_only_irreversible_answers > 0 {
            st.class("a_checking_move_can_only_be_answered_by_a_capture_or_pawn_move");
            st.nontrivial(&root.identity());
            if st.want_nontrivial_sample() {
                st.nontrivial_sample(json!({"position": root.to_fen(), "depth": depth}));
            }
        }
        let ops: Vec<String> = vec!["x".to_string(); (depth - 1) as usize];
        let ex = || json!({"Explicit": {"fen": root.to_fen(), "ops": ops}});
        let spec = SearchSpec { fen: root.to_fen(), moves: vec![], limit: Limit::Depth(depth) };
        let Some((_, game)) = build(&spec) else { return Ok(()) };
        let mut state = crate::engine::search::PersistentState::new(1);
        let out = run_search(&game, &mut state, &spec.limit, 0).map_err(|pm| Fail::new(&format!("search_panic:{}", panic_signature(&pm)), format!("search at {} panicked: {pm}", root.to_fen())).explicit(ex()))?;
        for info in &out.infos {
            if info.mate.is_some() || info.cp != Some(0) {
                return Err(Fail::new("search:drawn_position_not_scored_as_draw", format!("{}: every legal move leads to a position that is drawn at once (fifty-move rule / dead material), yet the search reports '{}'", root.to_fen(), info.text())).explicit(ex()));
            }
        }
        Ok(())
    });
    RULE
}
