//! Shared driver for the search properties (C04, C08, C09, C12): explicit search specifications,
//! a recording reporter, the reported-line oracle and generators of search cases.
use crate::adapter::*;
use crate::chess::game::Game;
use crate::chess::moves::Move;
use crate::engine::options::EngineOptions;
use crate::engine::search::time_control::{verif_hooks, Control, TimeStrategy};
use crate::engine::search::{self, Clocks, PersistentState, Reporter, SearchInfo, SearchRestrictions, SearchScore, TimeControl};
use crate::framework::*;
use crate::gen::{self, Mix};
use crate::refchess::{Kind, Mv, Pc, Pos};
use serde::{Deserialize, Serialize};
use serde_json::json;
use std::time::Duration;

#[derive(Serialize, Deserialize, Clone, Debug, PartialEq)]
pub enum Limit {
    Depth(u8),
    MoveTime(u32),
    /// depth restriction under a fixed move time that is far away (exercises the ExactTime arms)
    DepthUnderMoveTime { depth: u8, ms: u32 },
    Clocks { wtime: Option<u32>, btime: Option<u32>, winc: Option<u32>, binc: Option<u32>, movestogo: Option<u32>, depth: Option<u8> },
}

/// A position with its game history (root + moves), and a limit.
#[derive(Serialize, Deserialize, Clone, Debug, PartialEq)]
pub struct SearchSpec {
    pub fen: String,
    pub moves: Vec<String>,
    pub limit: Limit,
}

#[derive(Clone, Debug, PartialEq)]
pub struct InfoRec {
    pub depth: u8,
    pub seldepth: u8,
    pub mate: Option<i16>,
    pub cp: Option<i16>,
    pub pv: Vec<Move>,
    pub nodes: u64,
    pub hashfull: usize,
    pub tbhits: u64,
    /// number of stop-flag polls seen on this thread when the line was reported (hook H1)
    pub polls: u64,
}

impl InfoRec {
    pub fn text(&self) -> String {
        format!(
            "depth {} seldepth {} score {} nodes {} hashfull {} tbhits {} pv {}",
            self.depth,
            self.seldepth,
            match (self.mate, self.cp) {
                (Some(m), _) => format!("mate {m}"),
                (_, Some(c)) => format!("cp {c}"),
                _ => "?".into(),
            },
            self.nodes,
            self.hashfull,
            self.tbhits,
            self.pv.iter().map(|m| format!("{m:?}")).collect::<Vec<_>>().join(" ")
        )
    }
}

#[derive(Default)]
pub struct RecReporter {
    pub infos: Vec<InfoRec>,
}

impl Reporter for RecReporter {
    fn generic_report(&self, _: &str) {}
    fn report_search_progress(&mut self, _game: &Game, p: SearchInfo) {
        let (mate, cp) = match p.score {
            SearchScore::Mate(n) => (Some(n), None),
            SearchScore::Centipawns(c) => (None, Some(c)),
        };
        self.infos.push(InfoRec {
            depth: p.depth,
            seldepth: p.seldepth,
            mate,
            cp,
            pv: p.pv.clone().into_iter().collect(),
            nodes: p.stats.nodes,
            hashfull: p.hashfull,
            tbhits: p.stats.tbhits,
            polls: verif_hooks::polls(),
        });
    }
    fn best_move(&self, _: &Game, _: Move) {}
}

/// Reference position and engine game (with history) for a spec; None if the spec is out of domain.
pub fn build(spec: &SearchSpec) -> Option<(Pos, Game)> {
    let root = Pos::from_fen(&spec.fen).ok()?;
    root.validate().ok()?;
    let mut g = to_game(&root);
    let mut cur = root;
    for t in &spec.moves {
        let m = cur.legal_moves().into_iter().find(|m| &m.uci() == t)?;
        let em = find_move(&g, &m)?;
        g.make_move(em);
        cur = cur.make(&m);
    }
    Some((cur, g))
}

pub struct Outcome {
    pub best: Move,
    pub infos: Vec<InfoRec>,
    pub polls: u64,
    pub control: Control,
    /// the position (FEN) at which the search observed its stop or expired limit, if it did (hook H3)
    pub stopped_at: Option<String>,
    /// node entries after the search had observed its stop (hook H5); 0 without the hook
    pub nodes_after_stop: u64,
}

fn stopped_at() -> Option<String> {
    #[cfg(hook_stopped_at)]
    return verif_hooks::stopped_at();
    #[cfg(not(hook_stopped_at))]
    None
}

fn time_control(limit: &Limit) -> (TimeControl, Option<u8>) {
    let ms = |v: &Option<u32>| v.map(|x| Duration::from_millis(x as u64));
    match limit {
        Limit::Depth(d) => (TimeControl::Infinite, Some(*d)),
        Limit::MoveTime(t) => (TimeControl::ExactTime(Duration::from_millis(*t as u64)), None),
        Limit::DepthUnderMoveTime { depth, ms } => (TimeControl::ExactTime(Duration::from_millis(*ms as u64)), Some(*depth)),
        Limit::Clocks { wtime, btime, winc, binc, movestogo, depth } => (
            TimeControl::Clocks(Clocks {
                white_clock: ms(wtime),
                black_clock: ms(btime),
                white_increment: ms(winc),
                black_increment: ms(binc),
                moves_to_go: *movestogo,
            }),
            *depth,
        ),
    }
}

/// One call of search::search with a recording reporter. `stop_at_poll` = 0: never stopped by the hook.
/// A panic is returned as Err(message).
pub fn run_search(game: &Game, state: &mut PersistentState, limit: &Limit, stop_at_poll: u64) -> Result<Outcome, String> {
    let options = EngineOptions::default();
    let (tc, depth) = time_control(limit);
    let restrictions = SearchRestrictions { depth };
    let mut reporter = RecReporter::default();
    let (mut ts, control) = TimeStrategy::new(game, &tc, &options);
    // stop_at_poll >= EXPIRY: not the stop flag but the time limit reads as expired from poll
    // (stop_at_poll - EXPIRY) on (hook H4) - the other way a search comes to an end
    // stop_at_poll >= AT_NODE: the stop (or, from AT_NODE + EXPIRY on, the expired limit) is observed when
    // the node counter reaches that value: the first in-search poll is placed there (hook H5)
    if stop_at_poll >= AT_NODE {
        #[cfg(hook_at_node)]
        {
            // the hook's state must be in place when the TimeStrategy is built (it reads the position of
            // its first poll then)
            let v = stop_at_poll - AT_NODE;
            verif_hooks::arm_at_node(if v >= EXPIRY { v - EXPIRY } else { v }, v >= EXPIRY);
            let (ts2, _c2) = TimeStrategy::new(game, &tc, &options);
            ts = ts2;
        }
        #[cfg(not(hook_at_node))]
        verif_hooks::arm(0);
    } else if stop_at_poll >= EXPIRY {
        #[cfg(hook_expiry)]
        verif_hooks::arm_expiry(stop_at_poll - EXPIRY);
        #[cfg(not(hook_expiry))]
        verif_hooks::arm(stop_at_poll - EXPIRY);
    } else {
        verif_hooks::arm(stop_at_poll);
    }
    let r = catch(|| search::search(game, state, &mut ts, &restrictions, &options, &mut reporter));
    let polls = verif_hooks::polls();
    let stopped_at = stopped_at();
    #[cfg(hook_at_node)]
    let nodes_after_stop = verif_hooks::nodes_after_stop();
    #[cfg(not(hook_at_node))]
    let nodes_after_stop = 0;
    verif_hooks::arm(0);
    r.map(|best| Outcome { best, infos: reporter.infos, polls, control, stopped_at, nodes_after_stop })
}

/// Offset that marks an index as a node count (the stop is observed when the search reaches that node)
pub const AT_NODE: u64 = 2_000_000_000;

/// Offset that marks a poll index as "limit expired at this poll" instead of "stop flag set at this poll".
pub const EXPIRY: u64 = 1_000_000_000;

/// Like `run_search`, but another thread calls the real `Control::stop()` after `delay_us` microseconds.
pub fn run_search_with_stopper(game: &Game, state: &mut PersistentState, limit: &Limit, delay_us: u64) -> Result<Outcome, String> {
    let options = EngineOptions::default();
    let (tc, depth) = time_control(limit);
    let restrictions = SearchRestrictions { depth };
    let mut reporter = RecReporter::default();
    let (mut ts, control) = TimeStrategy::new(game, &tc, &options);
    verif_hooks::arm(0);
    let r = std::thread::scope(|scope| {
        let c = &control;
        scope.spawn(move || {
            std::thread::sleep(Duration::from_micros(delay_us));
            c.stop();
        });
        catch(|| search::search(game, state, &mut ts, &restrictions, &options, &mut reporter))
    });
    let polls = verif_hooks::polls();
    let stopped_at = stopped_at();
    r.map(|best| Outcome { best, infos: reporter.infos, polls, control, stopped_at, nodes_after_stop: 0 })
}

/// One reported line in a form that both the in-process reporter and the binary's text give.
#[derive(Clone, Debug)]
pub struct Line {
    pub depth: u8,
    pub mate: Option<i16>,
    pub pv: Vec<(u8, u8, u8)>,
    pub text: String,
}

fn key_text(k: &(u8, u8, u8)) -> String {
    let mut s = format!("{}{}", crate::refchess::sq_name(k.0), crate::refchess::sq_name(k.1));
    if k.2 > 0 {
        s.push(['p', 'n', 'b', 'r', 'q', 'k'][k.2 as usize]);
    }
    s
}

/// Parse one 'info depth .. score cp|mate .. pv ..' line of the binary.
pub fn parse_info_line(l: &str) -> Option<Line> {
    let toks: Vec<&str> = l.split_whitespace().collect();
    if toks.first() != Some(&"info") {
        return None;
    }
    let find = |k: &str| toks.iter().position(|t| *t == k);
    let depth: u8 = toks.get(find("depth")? + 1)?.parse().ok()?;
    let si = find("score")?;
    let mate = match *toks.get(si + 1)? {
        "mate" => Some(toks.get(si + 2)?.parse::<i16>().ok()?),
        "cp" => {
            toks.get(si + 2)?.parse::<i16>().ok()?;
            None
        }
        _ => return None,
    };
    let pi = find("pv")?;
    let mut pv = vec![];
    for t in &toks[pi + 1..] {
        if t.len() < 4 {
            return None;
        }
        let from = crate::refchess::parse_sq(&t[0..2])?;
        let to = crate::refchess::parse_sq(&t[2..4])?;
        let promo = match t.chars().nth(4) {
            None => 0,
            Some('n') => 1,
            Some('b') => 2,
            Some('r') => 3,
            Some('q') => 4,
            Some(_) => return None,
        };
        pv.push((from, to, promo));
    }
    Some(Line { depth, mate, pv, text: l.to_string() })
}

/// C08 oracle over everything one search reported. `depth_limit`: the requested depth, if any.
pub fn check_reports(pos: &Pos, infos: &[InfoRec], depth_limit: Option<u8>, st: &mut Stats) -> Result<(), Fail> {
    let lines: Vec<Line> = infos.iter().map(|i| Line { depth: i.depth, mate: i.mate, pv: i.pv.iter().map(|m| mkey(*m)).collect(), text: i.text() }).collect();
    check_lines(pos, &lines, depth_limit, st)
}

pub fn check_lines(pos: &Pos, infos: &[Line], depth_limit: Option<u8>, st: &mut Stats) -> Result<(), Fail> {
    let fen = pos.to_fen();
    // "reported depths increase one by one": each report is one deeper than the one before; the
    // statement does not say where the sequence starts (any depth >= 1 may come first)
    let mut expect_depth = infos.first().map_or(1, |i| i.depth.max(1));
    for info in infos {
        let line = &info.text;
        if info.depth != expect_depth {
            return Err(Fail::new("report:depth_sequence", format!("{fen}: reported depth {} where {} was due ({line})", info.depth, expect_depth)));
        }
        expect_depth = expect_depth.saturating_add(1);
        if let Some(d) = depth_limit {
            if info.depth > d {
                return Err(Fail::new("report:depth_exceeds_limit", format!("{fen}: reported depth {} beyond the requested {d}", info.depth)));
            }
        }
        if info.pv.is_empty() {
            return Err(Fail::new("report:empty_pv", format!("{fen}: empty principal variation ({line})")));
        }
        // every move legal in the position reached so far
        let mut cur = pos.clone();
        for (i, m) in info.pv.iter().enumerate() {
            let legal = cur.legal_moves();
            match legal.iter().find(|r| r.key() == *m) {
                Some(r) => cur = cur.make(r),
                None => {
                    return Err(Fail::new("report:illegal_pv_move", format!("{fen}: PV move #{} {} is not legal in {} ({line})", i + 1, key_text(m), cur.to_fen())));
                }
            }
        }
        if let Some(n) = info.mate {
            st.class("mate_announced");
            if n == 0 {
                return Err(Fail::new("report:mate_zero", format!("{fen}: 'mate 0' reported ({line})")));
            }
            let want_len = if n > 0 { 2 * n as usize - 1 } else { 2 * (-(n as i32)) as usize };
            if info.pv.len() != want_len {
                return Err(Fail::new("report:mate_length", format!("{fen}: mate {n} announced but the line has {} plies instead of {want_len} ({line})", info.pv.len())));
            }
            if !cur.is_checkmate() {
                return Err(Fail::new("report:mate_line_not_mate", format!("{fen}: mate {n} announced but the line ends in {} which is not checkmate ({line})", cur.to_fen())));
            }
            // the announced side is the one mated: after an odd number of plies the opponent is to move
            let searching_side_mated = cur.white_to_move == pos.white_to_move;
            if searching_side_mated != (n < 0) {
                return Err(Fail::new("report:mate_wrong_side", format!("{fen}: mate {n} announced but the wrong side is mated ({line})")));
            }
        }
    }
    Ok(())
}

pub fn legal_in(pos: &Pos, m: Move) -> bool {
    pos.legal_moves().iter().any(|r| r.key() == mkey(m))
}

// ------------------------------------------------------------------------------------------------
// generators

/// Forced-mate and tiny-tree themes: KQK, KRK, KRRK ladder, back-rank, blocked pawns.
pub fn mate_theme(t: &mut Tape) -> Option<Pos> {
    let mut p = Pos::empty();
    let kind = t.pick(8);
    p.white_to_move = true;
    let free = |p: &Pos, t: &mut Tape| -> Option<u8> {
        let f: Vec<u8> = (0..64u8).filter(|s| p.board[*s as usize].is_none()).collect();
        if f.is_empty() {
            None
        } else {
            Some(f[t.pick(f.len())])
        }
    };
    match kind {
        0 | 1 | 2 => {
            // strong side king + major piece(s) against a bare king near the edge
            let edge: Vec<u8> = (0..64u8).filter(|s| s % 8 == 0 || s % 8 == 7 || s / 8 == 0 || s / 8 == 7).collect();
            let bk = if t.pick(3) == 0 { t.pick(64) as u8 } else { edge[t.pick(edge.len())] };
            p.board[bk as usize] = Some(Pc::new(false, Kind::K));
            let wk = free(&p, t)?;
            p.board[wk as usize] = Some(Pc::new(true, Kind::K));
            let pieces: &[Kind] = match kind {
                0 => &[Kind::Q],
                1 => &[Kind::R],
                _ => &[Kind::R, Kind::R],
            };
            for k in pieces {
                let s = free(&p, t)?;
                p.board[s as usize] = Some(Pc::new(true, *k));
            }
        }
        3 => {
            // back rank: black king behind its pawns, white heavy piece able to reach the back rank
            let f = 1 + t.pick(6) as i32;
            p.board[crate::refchess::sq(f, 7) as usize] = Some(Pc::new(false, Kind::K));
            for df in [-1, 0, 1] {
                if t.pick(6) != 0 {
                    p.board[crate::refchess::sq(f + df, 6) as usize] = Some(Pc::new(false, Kind::P));
                }
            }
            let wk = crate::refchess::sq(t.pick(8) as i32, 0);
            p.board[wk as usize] = Some(Pc::new(true, Kind::K));
            let s = free(&p, t)?;
            p.board[s as usize] = Some(Pc::new(true, if t.pick(2) == 0 { Kind::R } else { Kind::Q }));
            if t.pick(2) == 0 {
                let s = free(&p, t)?;
                p.board[s as usize] = Some(Pc::new(false, [Kind::R, Kind::N, Kind::B][t.pick(3)]));
            }
        }
        4 => {
            // queen and pawn race / promotion mates
            let bk = t.pick(64) as u8;
            p.board[bk as usize] = Some(Pc::new(false, Kind::K));
            let wk = free(&p, t)?;
            p.board[wk as usize] = Some(Pc::new(true, Kind::K));
            let f = t.pick(8) as i32;
            let r = 4 + t.pick(3) as i32;
            let s = crate::refchess::sq(f, r);
            if p.board[s as usize].is_none() {
                p.board[s as usize] = Some(Pc::new(true, Kind::P));
            }
            if t.pick(2) == 0 {
                let f2 = t.pick(8) as i32;
                let s2 = crate::refchess::sq(f2, 1 + t.pick(3) as i32);
                if p.board[s2 as usize].is_none() {
                    p.board[s2 as usize] = Some(Pc::new(false, Kind::P));
                }
            }
        }
        5 => {
            // tiny tree: kings and blocked pawn chains
            let wk = t.pick(16) as u8;
            p.board[wk as usize] = Some(Pc::new(true, Kind::K));
            let bk = 48 + t.pick(16) as u8;
            p.board[bk as usize] = Some(Pc::new(false, Kind::K));
            let n = 1 + t.pick(6);
            for _ in 0..n {
                let f = t.pick(8) as i32;
                let r = 2 + t.pick(3) as i32;
                let a = crate::refchess::sq(f, r);
                let b = crate::refchess::sq(f, r + 1);
                if p.board[a as usize].is_none() && p.board[b as usize].is_none() {
                    p.board[a as usize] = Some(Pc::new(true, Kind::P));
                    p.board[b as usize] = Some(Pc::new(false, Kind::P));
                }
            }
        }
        7 => {
            // a double pawn push that looks like mate: it gives check, every flight square is covered
            // and the pawn is protected - but it can be taken en passant, and that is the only legal
            // reply (8/8/R7/7k/5P1p/5K2/6P1/8 w and its reflections; sometimes the e.p. capturer is
            // missing and the push really mates)
            let flip = t.pick(2) == 0;
            let f = |x: i32| if flip { 7 - x } else { x };
            let sq = crate::refchess::sq;
            p.board[sq(f(7), 4) as usize] = Some(Pc::new(false, Kind::K));
            if t.pick(6) != 0 {
                p.board[sq(f(7), 3) as usize] = Some(Pc::new(false, Kind::P));
            } else {
                p.board[sq(f(7), 3) as usize] = Some(Pc::new(true, Kind::N));
            }
            p.board[sq(f(5), 3) as usize] = Some(Pc::new(true, Kind::P));
            p.board[sq(f(5), 2) as usize] = Some(Pc::new(true, Kind::K));
            p.board[sq(f(6), 1) as usize] = Some(Pc::new(true, Kind::P));
            p.board[sq(f(t.pick(4) as i32), 5) as usize] = Some(Pc::new(true, if t.pick(3) == 0 { Kind::Q } else { Kind::R }));
            p.halfmove = 0;
            p.fullmove = 1 + t.pick(60) as u32;
            if t.pick(2) == 1 {
                p = p.mirror();
            }
            p.validate().ok()?;
            return Some(p);
        }
        _ => {
            // strong side to be mated: mirror of a major-piece ending with the weak side to move
            let bk = t.pick(64) as u8;
            p.board[bk as usize] = Some(Pc::new(true, Kind::K));
            let wk = free(&p, t)?;
            p.board[wk as usize] = Some(Pc::new(false, Kind::K));
            for _ in 0..1 + t.pick(2) {
                let s = free(&p, t)?;
                p.board[s as usize] = Some(Pc::new(false, if t.pick(2) == 0 { Kind::Q } else { Kind::R }));
            }
        }
    }
    // side to move must make the position legal
    let wk = p.king_sq(true)?;
    let bk = p.king_sq(false)?;
    let w_in = p.attacked(wk, false);
    let b_in = p.attacked(bk, true);
    if w_in && b_in {
        return None;
    }
    if b_in {
        p.white_to_move = false;
    } else if w_in {
        p.white_to_move = true;
    } else if t.pick(3) == 0 {
        p.white_to_move = !p.white_to_move;
    }
    p.halfmove = [0u32, 0, 0, 10, 90, 96][t.pick(6)];
    p.fullmove = 1 + t.pick(120) as u32;
    if t.pick(2) == 1 {
        p = p.mirror();
    }
    p.validate().ok()?;
    Some(p)
}

/// Capture storm: several queens a side attacking each other, so that even the depth-1 search
/// (quiescence) exceeds the 10,000-node polling interval and a stop / expired limit is first seen
/// before any iteration has completed (the "panic move" path).
pub fn storm_theme(t: &mut Tape) -> Option<Pos> {
    storm_theme_sized(t, false)
}

/// `heavy`: 7-9 queens a side (depth 1 alone takes millions of nodes)
pub fn storm_theme_sized(t: &mut Tape, heavy: bool) -> Option<Pos> {
    if heavy {
        storm_theme_n(t, 7, 3)
    } else {
        storm_theme_n(t, 4, 3)
    }
}

/// 4-8 queens a side: for in-process searches that are stopped at a chosen poll (C09 `first_iteration`)
pub fn storm_theme_medium(t: &mut Tape) -> Option<Pos> {
    storm_theme_n(t, 4, 5)
}

fn storm_theme_n(t: &mut Tape, least: usize, span: usize) -> Option<Pos> {
    let mut p = Pos::empty();
    let wk = crate::refchess::sq(t.pick(8) as i32, 0);
    let bk = crate::refchess::sq(t.pick(8) as i32, 7);
    p.board[wk as usize] = Some(Pc::new(true, Kind::K));
    p.board[bk as usize] = Some(Pc::new(false, Kind::K));
    let nq = least + t.pick(span);
    for white in [true, false] {
        for i in 0..nq {
            // queens mostly in the middle ranks, a few minor pieces to vary the exchanges
            let kind = if i < nq - 1 || t.pick(2) == 0 { Kind::Q } else { [Kind::R, Kind::N, Kind::B][t.pick(3)] };
            for _ in 0..4 {
                let s = crate::refchess::sq(t.pick(8) as i32, 1 + t.pick(6) as i32);
                if p.board[s as usize].is_none() {
                    p.board[s as usize] = Some(Pc::new(white, kind));
                    break;
                }
            }
        }
    }
    let w_in = p.attacked(wk, false);
    let b_in = p.attacked(bk, true);
    if w_in && b_in {
        return None;
    }
    p.white_to_move = if b_in { false } else if w_in { true } else { t.pick(2) == 0 };
    p.fullmove = 1 + t.pick(80) as u32;
    p.validate().ok()?;
    Some(p)
}

/// The side to move is in check from a defended knight, its king is smothered by its own men, and the
/// only legal moves are captures of that knight by rooks / queens - every one of them a losing capture
/// by static exchange, and no quiet move exists at all.
pub fn losing_captures_theme(t: &mut Tape) -> Option<Pos> {
    use crate::refchess::sq;
    let mut p = Pos::empty();
    let (kf, dir) = if t.pick(2) == 0 { (7, -1) } else { (0, 1) };
    p.board[sq(kf, 0) as usize] = Some(Pc::new(true, Kind::K));
    p.board[sq(kf + dir, 0) as usize] = Some(Pc::new(true, [Kind::R, Kind::N, Kind::R, Kind::B][t.pick(4)]));
    p.board[sq(kf + dir, 1) as usize] = Some(Pc::new(true, Kind::P));
    p.board[sq(kf, 1) as usize] = Some(Pc::new(true, Kind::P));
    let n = sq(kf + 2 * dir, 1);
    p.board[n as usize] = Some(Pc::new(false, Kind::N));
    p.white_to_move = true;
    // black king somewhere far away, or next to the knight as its defender
    let bk = if t.pick(4) == 0 { sq(kf + 3 * dir, 1 + t.pick(2) as i32) } else { sq(t.pick(8) as i32, 5 + t.pick(3) as i32) };
    p.board[bk as usize] = Some(Pc::new(false, Kind::K));
    // a defender of the knight
    for _ in 0..6 {
        let k = [Kind::P, Kind::B, Kind::R, Kind::Q, Kind::N, Kind::P][t.pick(6)];
        let s = t.pick(64) as u8;
        let pc = Pc::new(false, k);
        if p.board[s as usize].is_some() || (k == Kind::P && (s < 8 || s >= 56)) {
            continue;
        }
        p.board[s as usize] = Some(pc);
        p.board[n as usize] = None; // is the square defended?
        let defended = p.attacked(n, false);
        p.board[n as usize] = Some(Pc::new(false, Kind::N));
        if defended {
            break;
        }
        p.board[s as usize] = None;
    }
    // one or two heavy capturers
    let want = 1 + t.pick(2);
    let mut have = 0;
    for _ in 0..12 {
        if have == want {
            break;
        }
        let s = t.pick(64) as u8;
        if p.board[s as usize].is_some() {
            continue;
        }
        p.board[s as usize] = Some(Pc::new(true, [Kind::Q, Kind::R][t.pick(2)]));
        let ok = p.validate().is_ok() && {
            let legal = p.legal_moves();
            !legal.is_empty() && legal.iter().all(|m| m.capture && m.to == n) && legal.len() > have
        };
        if ok {
            have += 1;
        } else {
            p.board[s as usize] = None;
        }
    }
    if have == 0 {
        return None;
    }
    p.fullmove = 1 + t.pick(60) as u32;
    if t.pick(2) == 0 {
        p = p.mirror();
    }
    p.validate().ok()?;
    let legal = p.legal_moves();
    if legal.is_empty() || !legal.iter().all(|m| m.capture) {
        return None;
    }
    Some(p)
}

/// A position with exactly one legal move (a forced reply), found on walks from check themes; one
/// time in three a constructed position whose only legal moves are losing captures.
pub fn forced_theme(t: &mut Tape) -> Option<Pos> {
    if t.pick(3) == 0 {
        if let Some(p) = losing_captures_theme(t) {
            return Some(p);
        }
    }
    for _ in 0..6 {
        let mix = if t.pick(2) == 0 { Mix::General } else { Mix::Tactical };
        let Some(gp) = gen::gen_root(t, mix) else { continue };
        let mut cur = gp.pos;
        for _ in 0..12 {
            let legal = cur.legal_moves();
            if legal.len() == 1 {
                return Some(cur);
            }
            if legal.is_empty() {
                break;
            }
            // prefer checking moves: forced replies follow checks
            let checks: Vec<&Mv> = legal.iter().filter(|m| cur.make(m).in_check()).collect();
            let m = if !checks.is_empty() && t.pick(4) != 0 { *checks[t.pick(checks.len())] } else { legal[t.pick(legal.len())] };
            cur = cur.make(&m);
        }
    }
    None
}

/// Fortress: kings behind completely locked pawn chains (no captures, no pawn moves), optionally
/// pawnless with the halfmove clock two plies before the fifty-move limit: the search tree is so small
/// that iterative deepening runs to its last iterations (depth 200+) within milliseconds.
pub fn fortress_theme(t: &mut Tape) -> Option<Pos> {
    let mut p = Pos::empty();
    if t.pick(3) == 0 {
        // pawnless, clock 98/99: every grandchild is a fifty-move draw
        let wk = t.pick(64) as u8;
        p.board[wk as usize] = Some(Pc::new(true, Kind::K));
        let mut bk = t.pick(64) as u8;
        for _ in 0..8 {
            if (crate::refchess::file_of(bk) - crate::refchess::file_of(wk)).abs() > 1 || (crate::refchess::rank_of(bk) - crate::refchess::rank_of(wk)).abs() > 1 {
                break;
            }
            bk = t.pick(64) as u8;
        }
        if p.board[bk as usize].is_some() {
            return None;
        }
        p.board[bk as usize] = Some(Pc::new(false, Kind::K));
        let k = [Kind::R, Kind::Q, Kind::N, Kind::B][t.pick(4)];
        let s = t.pick(64) as u8;
        if p.board[s as usize].is_none() {
            p.board[s as usize] = Some(Pc::new(t.pick(2) == 0, k));
        }
        p.halfmove = [98u32, 99, 97][t.pick(3)];
        p.fullmove = 120;
        p.white_to_move = t.pick(2) == 0;
    } else {
        // locked chains on alternating files: white pawn on rank r, black pawn on rank r+1
        let files: Vec<i32> = if t.pick(2) == 0 { vec![0, 2, 4, 6] } else { vec![1, 3, 5, 7] };
        let r = 2 + t.pick(3) as i32;
        for f in files {
            p.board[crate::refchess::sq(f, r) as usize] = Some(Pc::new(true, Kind::P));
            p.board[crate::refchess::sq(f, r + 1) as usize] = Some(Pc::new(false, Kind::P));
        }
        p.board[crate::refchess::sq(t.pick(8) as i32, 0) as usize] = Some(Pc::new(true, Kind::K));
        p.board[crate::refchess::sq(t.pick(8) as i32, 7) as usize] = Some(Pc::new(false, Kind::K));
        p.white_to_move = t.pick(2) == 0;
        p.fullmove = 1 + t.pick(60) as u32;
    }
    let wk = p.king_sq(true)?;
    let bk = p.king_sq(false)?;
    let (w_in, b_in) = (p.attacked(wk, false), p.attacked(bk, true));
    if w_in && b_in {
        return None;
    }
    if w_in {
        p.white_to_move = true;
    }
    if b_in {
        p.white_to_move = false;
    }
    p.validate().ok()?;
    Some(p)
}

/// A searchable (non-terminal) game: root + moves. `mate_bias`: share of mate themes out of 8.
pub fn gen_game(t: &mut Tape, mate_bias: usize, max_plies: usize) -> Option<(String, Vec<String>, Pos, &'static str)> {
    gen_game_opts(t, mate_bias, max_plies, true)
}

/// Depth-limited searches of capture-storm positions (many queens) explode: cap their depth so that
/// every generated search stays bounded. Time-limited searches are left alone.
/// Material beyond that of the initial position, in units in which a queen counts two, a rook one and a
/// minor piece a half: the measure of how far quiescence can explode (queens most, but ten rooks a side
/// do it too).
pub fn heavy_extra(pos: &Pos) -> usize {
    let c = |k: Kind| pos.count(true, k) + pos.count(false, k);
    2 * c(Kind::Q).saturating_sub(2) + c(Kind::R).saturating_sub(4) + (c(Kind::B) + c(Kind::N)).saturating_sub(8) / 2
}

pub fn tame(spec: &mut SearchSpec) {
    let Limit::Depth(d) = spec.limit else { return };
    let Some((pos, _)) = build(spec) else { return };
    let x = heavy_extra(&pos);
    // (four queens -> 5, five -> 3, six -> 2, eight -> 1, as measured for queens; rooks and minors pro rata)
    let cap = if x >= 12 { 1 } else if x >= 8 { 2 } else if x >= 6 { 3 } else if x >= 4 { 5 } else { 255 };
    spec.limit = Limit::Depth(d.min(cap));
}

pub fn gen_game_opts(t: &mut Tape, mate_bias: usize, max_plies: usize, allow_storm: bool) -> Option<(String, Vec<String>, Pos, &'static str)> {
    let special = t.pick(12);
    let (root, src): (Pos, &'static str) = if special == 0 && allow_storm {
        (storm_theme(t)?, "capture_storm")
    } else if special == 1 {
        (gen::gen_root(t, Mix::Sparse)?.pos, "sparse")
    } else if special == 2 {
        (forced_theme(t)?, "forced_move")
    } else if special == 3 {
        (fortress_theme(t)?, "fortress")
    } else if special == 4 && t.pick(2) == 0 {
        // mined positions (roots_data::SCORE_SWINGS) in which the root score of consecutive iterations
        // differs by more than the 16-bit range: the side to move is clearly lost at iteration n - 1 and
        // has found a mate at iteration n >= 5, or the reverse - as they are, or colour-mirrored
        let f = crate::roots_data::SCORE_SWINGS[t.pick(crate::roots_data::SCORE_SWINGS.len())];
        let p = Pos::from_fen(f).ok()?;
        p.validate().ok()?;
        (if t.pick(2) == 0 { p } else { p.mirror() }, "score_swing")
    } else if t.pick(8) < mate_bias {
        (mate_theme(t)?, "mate_theme")
    } else {
        let r = if t.pick(5) == 0 { gen::gen_root(t, Mix::Tactical)? } else { gen::gen_root(t, Mix::Roots)? };
        (r.pos, r.src)
    };
    // Positions of this pool are searched to a fixed depth, also by the shipped binary under wall-clock
    // oracles: a one-ply search of nine queens a side was measured at 1.2e9 nodes (275 s), so the pool
    // holds at most twelve queens (heavier material is searched under time limits only: C14, C05, C09)
    // (callers that pass `allow_storm = false` send fixed depths of up to 5 without `tame`: they get at
    // most two extra queens' worth of material)
    let (root, src) = if heavy_extra(&root) > if src == "capture_storm" { 20 } else if allow_storm { 16 } else { 4 } {
        (gen::gen_root(t, Mix::Roots)?.pos, "root")
    } else {
        (root, src)
    };
    let mut cur = root.clone();
    let mut moves = vec![];
    let plies = if src == "score_swing" { t.pick(5) / 4 } else { t.pick(max_plies + 1) };
    for _ in 0..plies {
        let legal = cur.legal_moves();
        if legal.is_empty() {
            break;
        }
        let i = if t.pick(2) == 0 { t.pick(legal.len()) } else { gen::pick_weighted(t, &cur, &legal) };
        let next = cur.make(&legal[i]);
        if next.legal_moves().is_empty() {
            break; // keep the final position searchable
        }
        moves.push(legal[i].uci());
        cur = next;
    }
    if cur.legal_moves().is_empty() {
        return None;
    }
    Some((root.to_fen(), moves, cur, src))
}

pub fn pick_hash(t: &mut Tape, tier: Tier) -> usize {
    match tier {
        Tier::Quick => [1usize, 1, 2, 3, 16, 0][t.pick(6)],
        Tier::Thorough => [1usize, 1, 2, 3, 16, 64, 0, 0][t.pick(8)],
    }
}
