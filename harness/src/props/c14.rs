//! C14 Time allocation never exceeds what the clock allows.
use super::searchlib::{build, gen_game, Limit, SearchSpec};
use super::ucilib::*;
use crate::adapter::*;
use crate::engine::options::EngineOptions;
use crate::engine::search::time_control::TimeStrategy;
use crate::engine::search::{Clocks, TimeControl};
use crate::engine::uci::commands::UciCommand;
use crate::engine::uci::parser;
use crate::framework::*;
use crate::refchess::Pos;
use proptest::prelude::*;
use serde::{Deserialize, Serialize};
use serde_json::json;
use std::time::{Duration, Instant};

pub const RULE: &str = "arithmetic: tuples (remaining 0..10^7 ms log-uniform and grid values, increment 0..10^5, moves-to-go none or 1..200, Move Overhead 0..min(1000, remaining/2), side to move, the other side's clock absent / tiny / huge / equal) -> TimeStrategy::new on TimeControl::Clocks, limits read through the hook accessor: hard <= (remaining - overhead)/2 and soft <= hard (tolerance 2^-20 relative + 1 us, the engine computes in f32), no panic; ExactTime(t) => soft = hard = t; and parser::parse('go wtime .. btime .. winc .. binc .. movestogo ..') must put every number into its field. Poll gate ('poll_gate'): should_stop driven like the search drives it (one call per node, consecutive counters) from first counters around 0, 2^16 .. 2^40 (2^32 +- 40000 in a third of the cases) under a 2-11 ms fixed move time or clock limit: a stop answer within 1000000 nodes (a fifth of a second of search) after the limit has passed. Wall clock, shipped binary, at most 4 processes at a time: middlegame positions x remaining 200..2000 ms x increments x moves-to-go x Move Overhead x (a quarter of the cases) an additional 'depth 30-99', the other side's clock 100x larger (one case in six sends 'go movetime <half of that time>' instead of clocks and must likewise answer before the full time has passed; one case in eight runs 255-511 'go depth 1' first, on a 512-1024 MB table, so that the timed search is number 256 / 257 / 512 of its session); the time from writing 'go' to reading 'bestmove' must be below the remaining time; an overrun counts only if it repeats in three consecutive solo re-runs. Non-trivial = tuple where the 50 % cap binds, or moves-to-go <= 2, or remaining <= 300 ms; distinct by tuple.";

#[derive(Serialize, Deserialize, Clone, Debug)]
pub struct Tuple {
    remaining_ms: u64,
    increment_ms: u64,
    movestogo: Option<u32>,
    overhead_ms: u64,
    white: bool,
    other_ms: Option<u64>,
    other_inc_ms: Option<u64>,
}

fn check_tuple(t: &Tuple, st: &mut Stats) -> Result<(), Fail> {
    st.eval();
    // domain: overhead at most half of the remaining time and within the advertised range
    let overhead = t.overhead_ms.min(1000).min(t.remaining_ms / 2);
    let mut p = Pos::start();
    p.white_to_move = t.white;
    let game = to_game(&p);
    let ms = Duration::from_millis;
    let (mine, mine_inc, other, other_inc) = (Some(ms(t.remaining_ms)), Some(ms(t.increment_ms)), t.other_ms.map(ms), t.other_inc_ms.map(ms));
    let clocks = if t.white {
        Clocks { white_clock: mine, black_clock: other, white_increment: mine_inc, black_increment: other_inc, moves_to_go: t.movestogo }
    } else {
        Clocks { white_clock: other, black_clock: mine, white_increment: other_inc, black_increment: mine_inc, moves_to_go: t.movestogo }
    };
    let options = EngineOptions { move_overhead: overhead as usize, ..EngineOptions::default() };
    let (soft, hard) = match catch(|| TimeStrategy::new(&game, &TimeControl::Clocks(clocks), &options).0.verif_limits()) {
        Ok(x) => x,
        Err(pm) => return Err(Fail::new(&format!("limits_panic:{}", panic_signature(&pm)), format!("TimeStrategy::new panicked for {t:?} (overhead {overhead}): {pm}"))),
    };
    let cap = (t.remaining_ms - overhead) as f64 / 2.0 / 1000.0;
    let tol = cap * 2f64.powi(-20) + 1e-6;
    let binds = hard.as_secs_f64() >= cap - tol;
    if binds || t.movestogo.map_or(false, |m| m <= 2) || t.remaining_ms <= 300 {
        st.nontrivial(&format!("{t:?}"));
        if st.want_nontrivial_sample() {
            st.nontrivial_sample(json!({"tuple": t, "overhead_used": overhead, "soft_ms": soft.as_secs_f64() * 1000.0, "hard_ms": hard.as_secs_f64() * 1000.0, "cap_ms": cap * 1000.0}));
        }
    }
    if binds {
        st.class("cap_binds");
    }
    if t.movestogo.is_some() {
        st.class("movestogo");
    }
    if hard.as_secs_f64() > cap + tol {
        return Err(Fail::new("limits:hard_exceeds_half_of_remaining", format!("{t:?} (overhead {overhead} ms): hard limit {:.3} ms exceeds half of the remaining time after overhead, {:.3} ms", hard.as_secs_f64() * 1000.0, cap * 1000.0)));
    }
    if soft.as_secs_f64() > hard.as_secs_f64() + tol {
        return Err(Fail::new("limits:soft_exceeds_hard", format!("{t:?}: soft limit {:.3} ms exceeds the hard limit {:.3} ms", soft.as_secs_f64() * 1000.0, hard.as_secs_f64() * 1000.0)));
    }
    Ok(())
}

#[derive(Serialize, Deserialize, Clone, Debug)]
pub struct GoLine {
    wtime: Option<u32>,
    btime: Option<u32>,
    winc: Option<u32>,
    binc: Option<u32>,
    movestogo: Option<u32>,
    movetime: Option<u32>,
    depth: Option<u8>,
    order: u8,
}

fn check_go_line(g: &GoLine, st: &mut Stats) -> Result<(), Fail> {
    st.eval();
    let mut parts: Vec<String> = vec![];
    if let Some(v) = g.wtime {
        parts.push(format!("wtime {v}"));
    }
    if let Some(v) = g.btime {
        parts.push(format!("btime {v}"));
    }
    if let Some(v) = g.winc {
        parts.push(format!("winc {v}"));
    }
    if let Some(v) = g.binc {
        parts.push(format!("binc {v}"));
    }
    if let Some(v) = g.movestogo {
        parts.push(format!("movestogo {v}"));
    }
    if let Some(v) = g.movetime {
        parts.push(format!("movetime {v}"));
    }
    if let Some(v) = g.depth {
        parts.push(format!("depth {v}"));
    }
    // a rotation of the argument order
    if !parts.is_empty() {
        let k = g.order as usize % parts.len();
        parts.rotate_left(k);
    }
    let line = format!("go {}", parts.join(" ")).trim_end().to_string();
    st.nontrivial(&line);
    if st.want_nontrivial_sample() {
        st.nontrivial_sample(json!(line));
    }
    let ms = |v: Option<u32>| v.map(|x| Duration::from_millis(x as u64));
    match parser::parse(&line) {
        Ok(UciCommand::Go(a)) => {
            if a.wtime != ms(g.wtime) || a.btime != ms(g.btime) || a.winc != ms(g.winc) || a.binc != ms(g.binc) || a.movestogo != g.movestogo || a.movetime != ms(g.movetime) || a.depth != g.depth {
                return Err(Fail::new("parser:go_fields", format!("parser::parse('{line}') = {a:?}")));
            }
            Ok(())
        }
        other => Err(Fail::new("parser:go_rejected", format!("parser::parse('{line}') = {other:?}"))),
    }
}

#[derive(Serialize, Deserialize, Clone, Debug)]
pub enum Timing {
    Tape(Vec<u16>),
    Explicit {
        fen: String,
        moves: Vec<String>,
        remaining_ms: u32,
        increment_ms: u32,
        movestogo: Option<u32>,
        overhead_ms: u32,
        /// `depth N` sent together with the clocks (GUIs do that for depth-capped games)
        #[serde(default)]
        depth: Option<u8>,
        /// `go movetime M` (with the optional depth) instead of clocks
        #[serde(default)]
        movetime: Option<u32>,
        /// the measured search is preceded by this many `go depth 1` in the same process ...
        #[serde(default)]
        earlier_searches: u32,
        /// ... on a table of this size (MB); 16 when absent
        #[serde(default)]
        hash_mb: Option<u32>,
    },
}

fn measure(fen: &str, moves: &[String], white: bool, remaining: u32, inc: u32, mtg: Option<u32>, overhead: u32, depth: Option<u8>, movetime: Option<u32>, earlier: u32, hash_mb: u32) -> Result<f64, String> {
    let mut e = Engine::spawn(&[])?;
    e.send(&format!("setoption name Hash value {hash_mb}"))?;
    e.send(&format!("setoption name Move Overhead value {overhead}"))?;
    let pos = if moves.is_empty() { format!("position fen {fen}") } else { format!("position fen {fen} moves {}", moves.join(" ")) };
    e.send(&pos)?;
    e.send("isready")?;
    loop {
        match e.read_line(Duration::from_secs(60))? {
            Some(l) if l == "readyok" => break,
            Some(_) => {}
            None => return Err("engine closed".into()),
        }
    }
    // earlier searches of the session (the search under the clock is then number `earlier` + 1)
    for _ in 0..earlier {
        e.send("go depth 1")?;
        loop {
            match e.read_line(Duration::from_secs(60))? {
                Some(l) if l.starts_with("bestmove") => break,
                Some(l) if l.contains("panic") => return Err(format!("panic: {l}")),
                Some(_) => {}
                None => return Err("engine closed".into()),
            }
        }
    }
    let other = remaining as u64 * 100;
    let (w, b, wi, bi) = if white { (remaining as u64, other, inc, 0) } else { (other, remaining as u64, 0, inc) };
    let mut cmd = format!("go wtime {w} btime {b} winc {wi} binc {bi}");
    if let Some(m) = mtg {
        cmd.push_str(&format!(" movestogo {m}"));
    }
    if let Some(ms) = movetime {
        cmd = format!("go movetime {ms}");
    }
    if let Some(d) = depth {
        cmd.push_str(&format!(" depth {d}"));
    }
    let t0 = Instant::now();
    e.send(&cmd)?;
    // an answer that has not come after three times the clock (at least 5 s) is an overrun already
    let patience = Duration::from_millis((remaining as u64 * 3).max(5000));
    loop {
        if t0.elapsed() > patience {
            e.kill();
            return Ok(t0.elapsed().as_secs_f64() * 1000.0);
        }
        let line = match e.read_line_stamped(patience) {
            Err(x) if x.contains("no output") => {
                e.kill();
                return Ok(t0.elapsed().as_secs_f64() * 1000.0);
            }
            other => other?,
        };
        match line {
            Some((t1, l)) if l.starts_with("bestmove") => {
                e.quit();
                return Ok(t1.duration_since(t0).as_secs_f64() * 1000.0);
            }
            Some((_, l)) if l.contains("panic") => return Err(format!("panic: {l}")),
            Some(_) => {}
            None => return Err("engine closed before bestmove".into()),
        }
    }
}

static SOLO: std::sync::Mutex<()> = std::sync::Mutex::new(());

fn check_timing(c: &Timing, st: &mut Stats) -> Result<(), Fail> {
    let (fen, moves, remaining, inc, mtg, overhead, depth, movetime, earlier, hash_mb) = match c {
        Timing::Tape(data) => {
            let mut t = Tape::new(data);
            // a quarter of the cases use capture-storm positions, whose first iteration alone can
            // outlast a small clock
            let storm = t.pick(5) < 2;
            let game = if storm { super::searchlib::storm_theme_sized(&mut t, true).map(|p| (p.to_fen(), vec![])) } else { gen_game(&mut t, 0, 10).map(|(f, m, _, _)| (f, m)) };
            let Some((fen, moves)) = game else {
                st.discard();
                return Ok(());
            };
            let remaining = if storm { [200u32, 200, 250, 300][t.pick(4)] } else { [200u32, 250, 300, 400, 600, 1000, 1500, 2000][t.pick(8)] };
            let inc = [0u32, 0, 10, 50, 100, 1000][t.pick(6)];
            let mtg = match t.pick(5) {
                0 => Some(1),
                1 => Some(2),
                2 => Some(1 + t.pick(40) as u32),
                _ => None,
            };
            let overhead = [0u32, 0, 10, 50, 100][t.pick(5)].min(remaining / 2);
            // a quarter of the cases also name a depth far beyond what the clock allows
            let depth = if t.pick(4) == 0 { Some(30 + t.pick(70) as u8) } else { None };
            // one case in six: a fixed move time (of half the "clock") instead of clocks
            let movetime = if t.pick(6) == 0 { Some(remaining / 2) } else { None };
            // one case in eight: the search under the clock is the 256th / 257th / 512th of its session,
            // on a large table
            let (earlier, hash_mb) = if !storm && t.pick(8) == 0 { ([255u32, 255, 256, 511][t.pick(4)], [512u32, 1024, 1024][t.pick(3)]) } else { (0, 16) };
            (fen, moves, remaining, inc, mtg, overhead, depth, movetime, earlier, hash_mb)
        }
        Timing::Explicit { fen, moves, remaining_ms, increment_ms, movestogo, overhead_ms, depth, movetime, earlier_searches, hash_mb } => (fen.clone(), moves.clone(), *remaining_ms, *increment_ms, *movestogo, (*overhead_ms).min(*remaining_ms / 2), *depth, *movetime, *earlier_searches, hash_mb.unwrap_or(16)),
    };
    let spec = SearchSpec { fen: fen.clone(), moves: moves.clone(), limit: Limit::Depth(1) };
    let Some((pos, _)) = build(&spec) else { return Ok(()) };
    if pos.legal_moves().len() < 2 || remaining < 200 {
        return Ok(());
    }
    st.eval();
    let ex = || json!({"Explicit": {"fen": fen, "moves": moves, "remaining_ms": remaining, "increment_ms": inc, "movestogo": mtg, "overhead_ms": overhead, "depth": depth, "movetime": movetime, "earlier_searches": earlier, "hash_mb": hash_mb}});
    let white = pos.white_to_move;
    let io = |e: String| Fail::new("binary:io", format!("engine process: {e}")).explicit(ex());
    let took = measure(&fen, &moves, white, remaining, inc, mtg, overhead, depth, movetime, earlier, hash_mb).map_err(io)?;
    st.class(if took < remaining as f64 / 2.0 + 15.0 { "answered_within_half_plus_15ms" } else { "answered_later_than_half_plus_15ms" });
    if remaining <= 300 || mtg.map_or(false, |m| m <= 2) {
        st.nontrivial(&format!("{fen} {moves:?} {remaining} {inc} {mtg:?} {overhead}"));
        if st.want_nontrivial_sample() {
            st.nontrivial_sample(json!({"fen": pos.to_fen(), "remaining_ms": remaining, "increment_ms": inc, "movestogo": mtg, "overhead_ms": overhead, "answered_after_ms": took}));
        }
    } else if st.want_sample() {
        st.sample(json!({"fen": pos.to_fen(), "remaining_ms": remaining, "increment_ms": inc, "movestogo": mtg, "answered_after_ms": took}));
    }
    if depth.is_some() {
        st.class("time_limit_together_with_a_depth_limit");
    }
    if earlier > 0 {
        st.class("search_number_256_or_more_of_its_session_on_a_large_table");
    }
    if movetime.is_some() {
        // "a fixed move time is used as given": the answer is due after `remaining / 2` ms; answering
        // later than `remaining` (twice the move time, at least 100 ms late) is the overrun here
        st.class("fixed_move_time_instead_of_clocks");
    }
    if took >= remaining as f64 {
        // a deterministic overrun comes from the code, a single one from the machine: three solo re-runs
        st.class("overrun_first_measurement");
        let _guard = SOLO.lock().unwrap();
        let mut times = vec![took];
        for _ in 0..3 {
            let again = measure(&fen, &moves, white, remaining, inc, mtg, overhead, depth, movetime, earlier, hash_mb).map_err(io)?;
            times.push(again);
            if again < remaining as f64 {
                st.class("overrun_not_repeated");
                return Ok(());
            }
        }
        return Err(Fail::new("clock:flag_fall", format!("{} with {remaining} ms on the clock (inc {inc}, movestogo {mtg:?}, overhead {overhead}, depth {depth:?}, movetime {movetime:?}, after {earlier} earlier searches, Hash {hash_mb}): bestmove after {times:?} ms in four runs", pos.to_fen())).explicit(ex()));
    }
    Ok(())
}

pub fn run(run: &mut Run) -> &'static str {
    let tier = run.tier;
    // ---- arithmetic: grid, exhaustive over the grid
    let rem_grid: Vec<u64> = vec![0, 1, 2, 3, 10, 50, 99, 100, 199, 200, 201, 300, 500, 999, 1000, 1001, 2000, 5000, 10_000, 60_000, 300_000, 1_000_000, 3_600_000, 10_000_000];
    let inc_grid: Vec<u64> = vec![0, 1, 10, 100, 1000, 2000, 10_000, 100_000];
    let mtg_grid: Vec<Option<u32>> = vec![None, Some(1), Some(2), Some(3), Some(10), Some(40), Some(200)];
    let ovh_grid: Vec<u64> = vec![0, 1, 10, 100, 500, 1000];
    let other_grid: Vec<Option<u64>> = vec![None, Some(0), Some(1), Some(10_000_000)];
    let mut grid = vec![];
    for r in &rem_grid {
        for i in &inc_grid {
            for m in &mtg_grid {
                for o in &ovh_grid {
                    for ot in &other_grid {
                        for white in [true, false] {
                            grid.push(Tuple { remaining_ms: *r, increment_ms: *i, movestogo: *m, overhead_ms: *o, white, other_ms: *ot, other_inc_ms: ot.map(|_| *i) });
                        }
                    }
                }
            }
        }
    }
    run.exhaustive_part("limits_grid", RULE, grid, check_tuple);
    // ---- arithmetic: random tuples (log-uniform remaining time)
    let cases = tier.pick(1_000_000, 30_000_000);
    let strat = (0u32..24, any::<u32>(), prop_oneof![Just(0u64), 0u64..200, 0u64..100_001], prop_oneof![Just(None), (1u32..=200).prop_map(Some), Just(Some(1))], 0u64..=1000, any::<bool>(), prop_oneof![Just(None), Just(Some(0u64)), (0u64..10_000_000).prop_map(Some)], prop_oneof![Just(None), (0u64..100_000).prop_map(Some)])
        .prop_map(|(bits, frac, increment_ms, movestogo, overhead_ms, white, other_ms, other_inc_ms)| {
            let hi = (1u64 << bits).min(10_000_000);
            Tuple { remaining_ms: (frac as u64 % (hi + 1)).min(10_000_000), increment_ms, movestogo, overhead_ms, white, other_ms, other_inc_ms }
        });
    run.proptest_part("limits_random", RULE, strat, cases, check_tuple);
    // ---- fixed move time
    let cases = tier.pick(100_000, 2_000_000);
    run.proptest_part("movetime", RULE, (0u64..10_000_000, any::<bool>(), 0usize..=1000), cases, |(t, white, ovh): &(u64, bool, usize), st: &mut Stats| {
        st.eval();
        st.nontrivial(&(*t, *white, *ovh));
        let mut p = Pos::start();
        p.white_to_move = *white;
        let options = EngineOptions { move_overhead: *ovh, ..EngineOptions::default() };
        let (soft, hard) = TimeStrategy::new(&to_game(&p), &TimeControl::ExactTime(Duration::from_millis(*t)), &options).0.verif_limits();
        if soft != Duration::from_millis(*t) || hard != Duration::from_millis(*t) {
            return Err(Fail::new("limits:movetime_not_used_as_given", format!("movetime {t} ms gives soft {soft:?} hard {hard:?}")));
        }
        Ok(())
    });
    // ---- the per-node gate in front of the clock: "limits compared with elapsed time at each poll"
    // must keep holding however many nodes a search has already visited. should_stop is driven the
    // way the search drives it - one call per node, consecutive counters - starting from a counter
    // value a long search reaches (2^16 .. 2^40 and their neighbourhoods; 2^32 nodes is a quarter
    // of an hour of search), first while the limit has not passed, then after it has; it must
    // answer "stop" within 1 000 000 further nodes (a hundred times the engine's own polling distance,
    // about a fifth of a second of search).
    let cases = tier.pick(3_000, 60_000);
    let strat = (0usize..16, 0u64..40_000, 0u64..30_000, 2u64..12, any::<bool>(), 1u32..4);
    run.proptest_part("poll_gate", RULE, strat, cases, |(sel, back, warm, limit_ms, clocks, mtg): &(usize, u64, u64, u64, bool, u32), st: &mut Stats| {
        const BASES: [u64; 16] = [0, 10_000, 1 << 16, 1 << 24, 1 << 31, 1 << 32, 1 << 32, 1 << 32, (1 << 32) + (1 << 31), 1 << 33, 3 << 32, 1 << 36, 1 << 40, 5 << 32, 1 << 20, 1 << 32];
        let start = BASES[*sel].saturating_sub(*back);
        st.eval();
        let crosses = |b: u64| start <= b && b <= start + warm + 20_000;
        if start + warm + 20_000 >= 1 << 32 {
            st.nontrivial(&(start, *warm, *limit_ms, *clocks));
            st.class(if crosses(1 << 32) { "counter_crosses_2^32" } else { "counter_beyond_2^32" });
            if st.want_nontrivial_sample() {
                st.nontrivial_sample(json!({"first_node_counter": start, "nodes_before_the_limit": warm, "limit_ms": limit_ms, "clocks": clocks}));
            }
        } else {
            st.class("counter_below_2^32");
        }
        let game = to_game(&Pos::start());
        let tc = if *clocks {
            let t = Some(Duration::from_millis(2 * limit_ms));
            TimeControl::Clocks(Clocks { white_clock: t, black_clock: t, white_increment: None, black_increment: None, moves_to_go: Some(*mtg) })
        } else {
            TimeControl::ExactTime(Duration::from_millis(*limit_ms))
        };
        let options = EngineOptions { move_overhead: 0, ..EngineOptions::default() };
        crate::engine::search::time_control::verif_hooks::arm(0);
        let desc = format!("{tc:?}, node counter from {start}");
        let r = catch(|| {
            let (mut ts, _control) = TimeStrategy::new(&game, &tc, &options);
            let (_, hard) = ts.verif_limits();
            let mut n = start;
            // before the limit (an early "stop" is not this property's business: the case ends there)
            for _ in 0..*warm {
                if ts.should_stop(n) {
                    return Ok(ts.elapsed() <= hard);
                }
                n += 1;
            }
            while ts.elapsed() <= hard + Duration::from_micros(200) {
                std::thread::sleep(Duration::from_micros(300));
            }
            for _ in 0..1_000_000u32 {
                if ts.should_stop(n) {
                    return Ok(false);
                }
                n += 1;
            }
            Err(format!("the limit {hard:?} had passed ({:?} elapsed), yet 1000000 consecutive nodes ({}..{n}) were searched without being told to stop", ts.elapsed(), start + warm))
        });
        match r {
            Ok(Ok(early)) => {
                if early {
                    st.class("stopped_before_the_limit(not_judged)");
                }
                Ok(())
            }
            Ok(Err(m)) => Err(Fail::new("gate:limit_not_enforced", format!("{desc}: {m}"))),
            Err(pm) => Err(Fail::new(&format!("gate_panic:{}", panic_signature(&pm)), format!("{desc}: should_stop panicked: {pm}"))),
        }
    });
    // ---- parser
    let cases = tier.pick(200_000, 3_000_000);
    let opt32 = || prop_oneof![Just(None), (0u32..4_000_000).prop_map(Some)];
    let strat = (opt32(), opt32(), opt32(), opt32(), prop_oneof![Just(None), (1u32..500).prop_map(Some)], opt32(), prop_oneof![Just(None), (1u8..=255).prop_map(Some)], any::<u8>())
        .prop_map(|(wtime, btime, winc, binc, movestogo, movetime, depth, order)| GoLine { wtime, btime, winc, binc, movestogo, movetime, depth, order });
    run.proptest_part("go_parser", RULE, strat, cases, check_go_line);
    // ---- wall clock on the shipped binary
    if engine_available() {
        let cases = tier.pick(96, 1_500);
        let old = run.workers;
        run.workers = 4;
        run.watchdog_secs = Some(600);
        run.max_shrink_ms = 30_000;
        run.max_shrink_iters = 12;
        run.proptest_part("wall_clock", RULE, tape(12..80).prop_map(Timing::Tape), cases, check_timing);
        run.workers = old;
    } else {
        run.assume("engine binary not available: wall-clock part skipped");
    }
    run.assume("wall-clock part: an overrun is reported only if it repeats in three consecutive solo re-runs; single overruns are attributed to machine load");
    RULE
}
