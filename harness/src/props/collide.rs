//! Pairs of different legal positions whose keys agree on most of their 64 bits.
//!
//! Anything in the engine that remembers a result under a *part* of the position key (a slot index
//! from the low bits plus a 32-bit tag, the upper 48 bits packed next to a 16-bit score, ...) is
//! indistinguishable from a correct implementation on random positions: two random keys agree on 46
//! given bits once in 2^46 pairs. But the key is a xor of per-(piece, square) words, so positions
//! colliding on any chosen set of up to ~56 bits can be *constructed*: take more "switches" (a given
//! man present on a given square or not) than the mask has bits; Gaussian elimination over GF(2)
//! yields a set T of switches whose words cancel on the mask; split T between two positions.
//! The words are read off the engine's own from-scratch key (`zobrist::hash`), nothing else.
use crate::adapter::to_game;
use crate::chess::zobrist;
use crate::framework::Tape;
use crate::refchess::{file_of, rank_of, sq, Kind, Pc, Pos, Sq};
use std::sync::OnceLock;

/// (name, mask): the key bits on which the two positions of a pair agree.
pub const MASKS: [(&str, u64); 7] = [
    ("upper_48_bits", !0u64 << 16),
    ("lower_48_bits", (1u64 << 48) - 1),
    ("upper_32_and_lower_20_bits", (!0u64 << 32) | ((1u64 << 20) - 1)),
    ("upper_16_and_lower_32_bits", (!0u64 << 48) | ((1u64 << 32) - 1)),
    ("upper_32_bits", !0u64 << 32),
    ("lower_32_bits", (1u64 << 32) - 1),
    ("all_but_the_middle_12_bits", !(0xfffu64 << 26)),
];

fn key_of(p: &Pos) -> u64 {
    zobrist::hash(&to_game(p)).0
}

/// word[white][kind][square], read off the from-scratch key of one-man positions
fn words() -> &'static Vec<u64> {
    static W: OnceLock<Vec<u64>> = OnceLock::new();
    W.get_or_init(|| {
        let mut e = Pos::empty();
        e.white_to_move = true;
        let base = key_of(&e);
        let mut v = vec![0u64; 2 * 6 * 64];
        for (wi, white) in [true, false].into_iter().enumerate() {
            for (ki, kind) in [Kind::P, Kind::N, Kind::B, Kind::R, Kind::Q, Kind::K].into_iter().enumerate() {
                for s in 0..64usize {
                    let mut p = e.clone();
                    p.board[s] = Some(Pc::new(white, kind));
                    v[(wi * 6 + ki) * 64 + s] = key_of(&p) ^ base;
                }
            }
        }
        v
    })
}

fn word(pc: Pc, s: Sq) -> u64 {
    let ki = match pc.kind {
        Kind::P => 0,
        Kind::N => 1,
        Kind::B => 2,
        Kind::R => 3,
        Kind::Q => 4,
        Kind::K => 5,
    };
    words()[((if pc.white { 0 } else { 1 }) * 6 + ki) * 64 + s as usize]
}

pub struct Pair {
    pub a: Pos,
    pub b: Pos,
    pub mask_name: &'static str,
    pub mask: u64,
    /// number of men by which the two positions differ
    pub differing: usize,
}

/// `base`: men common to both positions (kings included), side to move set. `only_in_b`: a man that
/// must be present in `b` and absent in `a` (for example the defender of a capture target).
/// Every other free square may receive a pawn (ranks 2-7) or a knight (back ranks) of a colour chosen
/// by the tape.
pub fn colliding_pair(t: &mut Tape, base: &Pos, only_in_b: Option<(Sq, Pc)>, mask_idx: usize) -> Option<Pair> {
    let (mask_name, mask) = MASKS[mask_idx % MASKS.len()];
    let wk = base.king_sq(true)?;
    let bk = base.king_sq(false)?;
    // switches
    let mut sw: Vec<(Sq, Pc)> = vec![];
    for s in 0..64u8 {
        if base.board[s as usize].is_some() || only_in_b.map_or(false, |(q, _)| q == s) {
            continue;
        }
        let r = rank_of(s);
        let mut white = t.pick(2) == 0;
        let pc = if r == 0 || r == 7 {
            Pc::new(white, Kind::N)
        } else {
            // no pawn may attack the enemy king (the side not to move must not be in check, and the
            // side to move is the same in both positions)
            let attacks = |white: bool, k: Sq| rank_of(k) == r + if white { 1 } else { -1 } && (file_of(k) - file_of(s)).abs() == 1;
            if attacks(white, if white { bk } else { wk }) {
                white = !white;
            }
            Pc::new(white, Kind::P)
        };
        // knights next to a king's knight-distance squares could give check to the side not to move
        if pc.kind == Kind::N {
            let k = if pc.white { bk } else { wk };
            let (df, dr) = ((file_of(k) - file_of(s)).abs(), (rank_of(k) - r).abs());
            if (df == 1 && dr == 2) || (df == 2 && dr == 1) {
                continue;
            }
        }
        sw.push((s, pc));
    }
    // random order (Fisher-Yates by the tape), the forced switch last
    for i in (1..sw.len()).rev() {
        let j = t.pick(i + 1);
        sw.swap(i, j);
    }
    if sw.len() > 63 {
        sw.truncate(63);
    }
    if let Some(f) = only_in_b {
        sw.push(f);
    }
    let n = sw.len();
    if n > 64 {
        return None;
    }
    // elimination with combination tracking: basis[i] = (vector with leading bit i, subset bitset)
    let mut basis: Vec<Option<(u64, u64)>> = vec![None; 64];
    let mut dependency: Option<u64> = None;
    for (j, (s, pc)) in sw.iter().enumerate() {
        let mut v = word(*pc, *s) & mask;
        let mut comb = 1u64 << j;
        while v != 0 {
            let lead = 63 - v.leading_zeros() as usize;
            match basis[lead] {
                Some((bv, bc)) => {
                    v ^= bv;
                    comb ^= bc;
                }
                None => {
                    basis[lead] = Some((v, comb));
                    break;
                }
            }
        }
        if v == 0 {
            let forced_ok = only_in_b.is_none() || j == n - 1;
            if forced_ok {
                dependency = Some(comb);
                break;
            }
            // a dependency among the free switches only: keep going (it does not enter the basis)
        }
    }
    let dep = dependency?;
    // split the dependency between the two positions, alternating within each (colour, kind) group
    let mut a = base.clone();
    let mut b = base.clone();
    let mut turn = [[false; 6]; 2];
    let mut differing = 0;
    for (j, (s, pc)) in sw.iter().enumerate() {
        if dep >> j & 1 == 0 {
            continue;
        }
        differing += 1;
        let forced = only_in_b.is_some() && j == n - 1;
        let g = &mut turn[usize::from(pc.white)][pc.kind as usize % 6];
        let to_b = forced || *g;
        if !forced {
            *g = !*g;
        }
        if to_b {
            b.board[*s as usize] = Some(*pc);
        } else {
            a.board[*s as usize] = Some(*pc);
        }
    }
    if a.validate().is_err() || b.validate().is_err() || a.board == b.board {
        return None;
    }
    // self-check against the engine's key
    if (key_of(&a) ^ key_of(&b)) & mask != 0 {
        return None;
    }
    Some(Pair { a, b, mask_name, mask, differing })
}

/// Bare kings in opposite corners (chosen by the tape), side to move chosen by the tape.
pub fn kings_base(t: &mut Tape) -> Pos {
    let mut p = Pos::empty();
    let (w, b) = [(sq(0, 0), sq(7, 7)), (sq(7, 0), sq(0, 7)), (sq(4, 0), sq(4, 7)), (sq(6, 0), sq(1, 7))][t.pick(4)];
    p.board[w as usize] = Some(Pc::new(true, Kind::K));
    p.board[b as usize] = Some(Pc::new(false, Kind::K));
    p.white_to_move = t.pick(2) == 0;
    p.fullmove = 1 + t.pick(50) as u32;
    p
}

/// Two different legal positions with the *same* 64-bit key. Up to two optional men per square (a
/// white or a black pawn on ranks 2-7, a white or a black knight on the back ranks) give about a
/// hundred switches for 64 key bits; every vector beyond the rank of the basis yields a dependency,
/// and the first one that splits into two legal positions of reachable material is used.
pub fn full_collision_pair(t: &mut Tape, base: &Pos) -> Option<Pair> {
    let wk = base.king_sq(true)?;
    let bk = base.king_sq(false)?;
    let mut sw: Vec<(Sq, Pc)> = vec![];
    for s in 0..64u8 {
        if base.board[s as usize].is_some() {
            continue;
        }
        let r = rank_of(s);
        for white in [true, false] {
            let k = if white { bk } else { wk };
            if r == 0 || r == 7 {
                let (df, dr) = ((file_of(k) - file_of(s)).abs(), (rank_of(k) - r).abs());
                if !((df == 1 && dr == 2) || (df == 2 && dr == 1)) {
                    sw.push((s, Pc::new(white, Kind::N)));
                }
            } else if !(rank_of(k) == r + if white { 1 } else { -1 } && (file_of(k) - file_of(s)).abs() == 1) {
                sw.push((s, Pc::new(white, Kind::P)));
            }
        }
    }
    for i in (1..sw.len()).rev() {
        let j = t.pick(i + 1);
        sw.swap(i, j);
    }
    sw.truncate(120);
    let mut basis: Vec<Option<(u64, u128)>> = vec![None; 64];
    let mut tries = 0;
    for (j, (s, pc)) in sw.iter().enumerate() {
        let mut v = word(*pc, *s);
        let mut comb = 1u128 << j;
        while v != 0 {
            let lead = 63 - v.leading_zeros() as usize;
            match basis[lead] {
                Some((bv, bc)) => {
                    v ^= bv;
                    comb ^= bc;
                }
                None => {
                    basis[lead] = Some((v, comb));
                    break;
                }
            }
        }
        if v != 0 {
            continue;
        }
        // a dependency: try to split it
        tries += 1;
        let mut a = base.clone();
        let mut b = base.clone();
        let mut turn = [[false; 6]; 2];
        let mut differing = 0;
        let mut ok = true;
        let members: Vec<usize> = (0..sw.len()).filter(|i| comb >> i & 1 == 1).collect();
        for &i in &members {
            let (s, pc) = sw[i];
            differing += 1;
            // the other switch of this square, if it is a member too, must go to the other position
            let twin = members.iter().any(|&m| m != i && sw[m].0 == s);
            let to_b = if twin {
                // white man to `a`, black man to `b`
                !pc.white
            } else {
                let g = &mut turn[usize::from(pc.white)][pc.kind as usize % 6];
                *g = !*g;
                *g
            };
            let tgt = if to_b { &mut b } else { &mut a };
            if tgt.board[s as usize].is_some() {
                ok = false;
                break;
            }
            tgt.board[s as usize] = Some(pc);
        }
        if ok && a.validate().is_ok() && b.validate().is_ok() && a.board != b.board && key_of(&a) == key_of(&b) {
            return Some(Pair { a, b, mask_name: "all_64_bits", mask: !0, differing });
        }
        if tries > 40 {
            break;
        }
    }
    None
}

/// A legal position whose 64-bit key has a chosen value (0, all ones, ...: values a program might use
/// as "no key yet"). Same construction: the switches whose words add up to key(base) ^ target are
/// switched on.
pub fn position_with_key(t: &mut Tape, base: &Pos, target: u64) -> Option<Pos> {
    let wk = base.king_sq(true)?;
    let bk = base.king_sq(false)?;
    let mut sw: Vec<(Sq, Pc)> = vec![];
    for s in 0..64u8 {
        if base.board[s as usize].is_some() {
            continue;
        }
        let r = rank_of(s);
        for white in [true, false] {
            let k = if white { bk } else { wk };
            if r == 0 || r == 7 {
                let (df, dr) = ((file_of(k) - file_of(s)).abs(), (rank_of(k) - r).abs());
                if !((df == 1 && dr == 2) || (df == 2 && dr == 1)) {
                    sw.push((s, Pc::new(white, [Kind::N, Kind::N, Kind::B][t.pick(3)])));
                }
            } else if !(rank_of(k) == r + if white { 1 } else { -1 } && (file_of(k) - file_of(s)).abs() == 1) {
                sw.push((s, Pc::new(white, Kind::P)));
            }
        }
    }
    for i in (1..sw.len()).rev() {
        let j = t.pick(i + 1);
        sw.swap(i, j);
    }
    sw.truncate(120);
    let mut basis: Vec<Option<(u64, u128)>> = vec![None; 64];
    let want = key_of(base) ^ target;
    let mut deps: Vec<u128> = vec![];
    for (j, (s, pc)) in sw.iter().enumerate() {
        let mut v = word(*pc, *s);
        let mut comb = 1u128 << j;
        while v != 0 {
            let lead = 63 - v.leading_zeros() as usize;
            match basis[lead] {
                Some((bv, bc)) => {
                    v ^= bv;
                    comb ^= bc;
                }
                None => {
                    basis[lead] = Some((v, comb));
                    break;
                }
            }
        }
        if v == 0 {
            deps.push(comb);
        }
    }
    // one solution, then the others (solution xor dependencies) until one is a legal position
    let (mut v, mut s0) = (want, 0u128);
    while v != 0 {
        let lead = 63 - v.leading_zeros() as usize;
        match basis[lead] {
            Some((bv, bc)) => {
                v ^= bv;
                s0 ^= bc;
            }
            None => return None,
        }
    }
    let build = |comb: u128| -> Option<Pos> {
        let mut p = base.clone();
        for i in 0..sw.len() {
            if comb >> i & 1 == 1 {
                let (s, pc) = sw[i];
                if p.board[s as usize].is_some() {
                    return None;
                }
                p.board[s as usize] = Some(pc);
            }
        }
        (p.validate().is_ok() && key_of(&p) == target).then_some(p)
    };
    if let Some(p) = build(s0) {
        return Some(p);
    }
    for (i, d) in deps.iter().enumerate() {
        if let Some(p) = build(s0 ^ d) {
            return Some(p);
        }
        for e in deps.iter().skip(i + 1) {
            if let Some(p) = build(s0 ^ d ^ e) {
                return Some(p);
            }
        }
    }
    None
}
