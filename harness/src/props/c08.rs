//! C08 Reported lines are playable and mate announcements are true.
use super::searchlib::*;
use crate::engine::search::PersistentState;
use crate::framework::*;
use crate::refchess::{Kind, Pc, Pos};
use proptest::strategy::Strategy;
use serde::{Deserialize, Serialize};
use serde_json::json;

pub const RULE: &str = "case = a list of depth-limited searches run one after the other on one PersistentState (hash 0/1/2/3/16 MB): games = root (repository FEN, tactical theme, or a forced-mate / tiny-tree theme: KQK, KRK, KRRK, back rank, pawn races, blocked pawns; for and against the side to move) plus 0-8 moves, depth 1..D; the earlier searches are of the parent / child / sibling positions of the main game or a self-play continuation, so that the table holds entries (also mate entries at other distances) when the later ones run. A Reporter receives every SearchInfo: PV non-empty, every PV move legal in the position reached so far (reference model), depths 1,2,3.. without gaps and <= the requested depth, Mate(n>0) => PV length 2n-1 ending in checkmate of the opponent, Mate(n<0) => length 2|n| with the searching side mated, Mate(0) never; the returned move is legal. The same kind of list also goes through the shipped binary, whose textual 'info depth .. score cp|mate .. pv ..' lines are parsed and judged by the same oracle (plus hashfull <= 1000). Non-trivial = search that announces a mate or runs on a non-empty table; distinct by (fen, moves, depth, index in the list).";

#[derive(Serialize, Deserialize, Clone, Debug)]
pub enum Case {
    Tape(Vec<u16>),
    Explicit { hash_mb: usize, searches: Vec<SearchSpec> },
}

pub fn build_case(data: &[u16], tier: Tier, max_depth: u8, mate_bias: usize) -> Option<(usize, Vec<SearchSpec>)> {
    let mut t = Tape::new(data);
    let hash_mb = pick_hash(&mut t, tier);
    let (fen, moves, pos, _src) = gen_game(&mut t, mate_bias, 8)?;
    let depth = |t: &mut Tape| 1 + t.pick(max_depth as usize) as u8;
    let mut searches: Vec<SearchSpec> = vec![];
    let mode = t.pick(4);
    if mode == 0 {
        // self-play: search, play the move found is not known in advance -> play a reference-chosen move
        let n = 1 + t.pick(5);
        let mut cur = pos.clone();
        let mut mv = moves.clone();
        for _ in 0..n {
            searches.push(SearchSpec { fen: fen.clone(), moves: mv.clone(), limit: Limit::Depth(depth(&mut t)) });
            let legal = cur.legal_moves();
            let m = legal[t.pick(legal.len())];
            let next = cur.make(&m);
            if next.legal_moves().is_empty() {
                break;
            }
            mv.push(m.uci());
            cur = next;
        }
    } else {
        let nprior = t.pick(4);
        for _ in 0..nprior {
            let mut mv = moves.clone();
            match t.pick(3) {
                0 if !mv.is_empty() => {
                    mv.pop(); // parent
                }
                1 => {
                    // child
                    let legal = pos.legal_moves();
                    let m = legal[t.pick(legal.len())];
                    if pos.make(&m).legal_moves().is_empty() {
                        continue;
                    }
                    mv.push(m.uci());
                }
                _ => {
                    // sibling: replace the last move
                    if let Some(_) = mv.pop() {
                        let spec = SearchSpec { fen: fen.clone(), moves: mv.clone(), limit: Limit::Depth(1) };
                        if let Some((pp, _)) = build(&spec) {
                            let legal = pp.legal_moves();
                            let m = legal[t.pick(legal.len())];
                            if pp.make(&m).legal_moves().is_empty() {
                                continue;
                            }
                            mv.push(m.uci());
                        }
                    }
                }
            }
            searches.push(SearchSpec { fen: fen.clone(), moves: mv, limit: Limit::Depth(depth(&mut t)) });
        }
        searches.push(SearchSpec { fen: fen.clone(), moves: moves.clone(), limit: Limit::Depth(depth(&mut t)) });
    }
    for sp in searches.iter_mut() {
        tame(sp);
    }
    Some((hash_mb, searches))
}

pub fn run_list(hash_mb: usize, searches: &[SearchSpec], st: &mut Stats) -> Result<(), Fail> {
    let ex = || json!({"Explicit": {"hash_mb": hash_mb, "searches": searches}});
    let mut state = PersistentState::new(hash_mb);
    for (i, spec) in searches.iter().enumerate() {
        let Some((pos, game)) = build(spec) else { continue };
        if pos.legal_moves().is_empty() {
            continue; // terminal positions are outside the property's domain
        }
        st.eval();
        let d = match spec.limit {
            Limit::Depth(d) => d,
            Limit::DepthUnderMoveTime { depth, .. } => depth,
            _ => continue,
        };
        let out = match run_search(&game, &mut state, &spec.limit, 0) {
            Ok(o) => o,
            Err(pm) => {
                return Err(Fail::new(&format!("search_panic:{}", panic_signature(&pm)), format!("search #{i} {} moves {:?} depth {d} panicked: {pm}", spec.fen, spec.moves)).explicit(ex()));
            }
        };
        check_reports(&pos, &out.infos, Some(d), st).map_err(|f| f.explicit(ex()))?;
        if !legal_in(&pos, out.best) {
            return Err(Fail::new("bestmove_illegal", format!("search #{i} at {} returned {:?}, which is not legal", pos.to_fen(), out.best)).explicit(ex()));
        }
        if out.infos.is_empty() {
            st.class("search_that_reported_no_line(not_judged)");
        }
        let mate = out.infos.iter().any(|x| x.mate.is_some());
        if mate {
            st.class("search_announces_mate");
            if out.infos.iter().any(|x| x.mate.map_or(false, |n| n < 0)) {
                st.class("search_announces_being_mated");
            }
            let dists: std::collections::BTreeSet<i16> = out.infos.iter().filter_map(|x| x.mate).collect();
            if dists.len() > 1 {
                st.class("mate_distance_changes_between_iterations");
            }
        }
        if i > 0 {
            st.class("non_empty_table");
        }
        if d >= 5 {
            st.class("depth_ge_5");
        }
        if mate || i > 0 {
            st.nontrivial(&(spec.fen.clone(), spec.moves.clone(), d, i));
            if st.want_nontrivial_sample() {
                st.nontrivial_sample(json!({"hash_mb": hash_mb, "index": i, "fen": pos.to_fen(), "depth": d, "last_line": out.infos.last().map(InfoRec::text)}));
            }
        } else if st.want_sample() {
            st.sample(json!({"hash_mb": hash_mb, "fen": pos.to_fen(), "depth": d, "last_line": out.infos.last().map(InfoRec::text)}));
        }
    }
    Ok(())
}

/// The same lists through the shipped binary: the textual 'info' lines are parsed and judged.
fn run_list_binary(hash_mb: usize, searches: &[SearchSpec], st: &mut Stats) -> Result<(), Fail> {
    use super::ucilib::Engine;
    use std::time::Duration;
    let ex = || json!({"Explicit": {"hash_mb": hash_mb, "searches": searches}});
    let mut e = Engine::spawn(&[]).map_err(|x| Fail::new("binary:io", x))?;
    let died = |e: &Engine, what: String| -> Fail {
        let tail: Vec<String> = e.transcript.iter().rev().take(6).rev().cloned().collect();
        Fail::new("binary:engine_died", format!("{what}; last lines: {tail:?}")).explicit(ex())
    };
    e.send(&format!("setoption name Hash value {hash_mb}")).map_err(|x| died(&e, x))?;
    for (i, spec) in searches.iter().enumerate() {
        let Some((pos, _)) = build(spec) else { continue };
        if pos.legal_moves().is_empty() {
            continue;
        }
        let Limit::Depth(d) = spec.limit else { continue };
        st.eval();
        let pos_cmd = if spec.moves.is_empty() { format!("position fen {}", spec.fen) } else { format!("position fen {} moves {}", spec.fen, spec.moves.join(" ")) };
        e.send(&pos_cmd).map_err(|x| died(&e, x))?;
        e.send(&format!("go depth {d}")).map_err(|x| died(&e, x))?;
        let mut lines: Vec<Line> = vec![];
        loop {
            match e.read_line(Duration::from_secs(180)) {
                Ok(Some(l)) => {
                    if l.starts_with("info ") {
                        match parse_info_line(&l) {
                            Some(line) => {
                                // hashfull is a permille value
                                if let Some(h) = l.split_whitespace().skip_while(|t| *t != "hashfull").nth(1).and_then(|t| t.parse::<u32>().ok()) {
                                    if h > 1000 {
                                        return Err(Fail::new("report:hashfull_range", format!("search #{i}: hashfull {h} in '{l}'")).explicit(ex()));
                                    }
                                }
                                lines.push(line)
                            }
                            // an info line that does not report a line (info string ..., currmove ..., no pv
                            // token) says nothing this property speaks about
                            None if l.starts_with("info string") || !l.split_whitespace().any(|t| t == "pv") => st.class("info_line_without_a_pv(not_judged)"),
                            None => return Err(Fail::new("report:unreadable_info_line", format!("search #{i} at {}: cannot read '{l}'", pos.to_fen())).explicit(ex())),
                        }
                    } else if l.starts_with("bestmove ") {
                        let mv = l.split_whitespace().nth(1).unwrap_or("");
                        if !pos.legal_moves().iter().any(|m| m.uci() == mv) {
                            return Err(Fail::new("bestmove_illegal", format!("search #{i}: '{l}' is not legal in {}", pos.to_fen())).explicit(ex()));
                        }
                        break;
                    } else if l.contains("panic") {
                        return Err(died(&e, format!("panic output: {l}")));
                    }
                }
                Ok(None) => return Err(died(&e, format!("output ended during search #{i}"))),
                Err(x) => return Err(died(&e, x)),
            }
        }
        if lines.is_empty() {
            // the property speaks about the lines that are reported; a search that reports none is
            // counted (so that a vacuous run is visible in the evidence), not judged
            st.class("binary_search_that_reported_no_line(not_judged)");
            continue;
        }
        check_lines(&pos, &lines, Some(d), st).map_err(|f| f.explicit(ex()))?;
        if lines.iter().any(|l| l.mate.is_some()) || i > 0 {
            st.nontrivial(&(spec.fen.clone(), spec.moves.clone(), d, i));
            if st.want_nontrivial_sample() {
                st.nontrivial_sample(json!({"position": pos_cmd, "depth": d, "last_info": lines.last().map(|l| l.text.clone())}));
            }
        }
    }
    e.quit();
    Ok(())
}

pub fn run(run: &mut Run) -> &'static str {
    let tier = run.tier;
    let max_depth = tier.pick(7u8, 10u8);
    let cases = tier.pick(12_000, 200_000);
    run.watchdog_secs = Some(tier.pick(240, 1800));
    let strat = tape(16..120).prop_map(Case::Tape);
    run.proptest_part("searches", RULE, strat, cases, move |c: &Case, st: &mut Stats| match c {
        Case::Tape(t) => match build_case(t, tier, max_depth, 5) {
            Some((h, s)) => run_list(h, &s, st),
            None => {
                st.discard();
                Ok(())
            }
        },
        Case::Explicit { hash_mb, searches } => run_list(*hash_mb, searches, st),
    });
    // deep searches (depth 14-19) of sparse mating endgames on an empty table: principal-variation
    // nodes with a great remaining depth and mate scores as window bounds exist only here
    // (the semantic oracle is what matters at this depth: the part runs in the fast profile when that
    // binary is available, and in this process otherwise and for replays)
    let deep_here = profile_name() == "fast" || std::env::var("VERIF_FAST_BIN").is_err() || !run.only_parts.is_empty() || run.replay.is_some();
    let cases = tier.pick(160, 4_000);
    let strat = tape(12..40).prop_map(Case::Tape);
    if deep_here {
    run.proptest_part("deep_mating_endgames", RULE, strat, cases, move |c: &Case, st: &mut Stats| match c {
        Case::Tape(data) => {
            let mut t = Tape::new(data);
            let mut p = Pos::empty();
            let strong = t.pick(2) == 0;
            // (rook and queen endings are cheap to search deeply and have the longest forced mates)
            let men: &[Kind] = [&[Kind::R][..], &[Kind::R], &[Kind::R], &[Kind::R], &[Kind::R], &[Kind::R], &[Kind::Q], &[Kind::Q], &[Kind::Q, Kind::P], &[Kind::R, Kind::P], &[Kind::R, Kind::R], &[Kind::Q, Kind::R], &[Kind::B, Kind::B], &[Kind::P, Kind::P], &[Kind::R], &[Kind::Q]][t.pick(16)];
            let mut place = |p: &mut Pos, t: &mut Tape, pc: Pc| {
                for _ in 0..8 {
                    let s = t.pick(64);
                    if p.board[s].is_none() && !(pc.kind == Kind::P && (s < 8 || s >= 56)) {
                        p.board[s] = Some(pc);
                        return;
                    }
                }
            };
            place(&mut p, &mut t, Pc::new(true, Kind::K));
            place(&mut p, &mut t, Pc::new(false, Kind::K));
            for k in men {
                place(&mut p, &mut t, Pc::new(strong, *k));
            }
            p.white_to_move = t.pick(2) == 0;
            p.fullmove = 1 + t.pick(60) as u32;
            if p.validate().is_err() || p.legal_moves().is_empty() {
                st.discard();
                return Ok(());
            }
            let depth = if men.len() == 1 { 16 + t.pick(4) as u8 } else { 15 + t.pick(if tier == Tier::Quick { 2 } else { 5 }) as u8 };
            let hash_mb = [1usize, 2, 16, 16][t.pick(4)];
            st.class("deep_search_of_a_sparse_ending");
            run_list(hash_mb, &[SearchSpec { fen: p.to_fen(), moves: vec![], limit: Limit::Depth(depth) }], st)
        }
        Case::Explicit { hash_mb, searches } => run_list(*hash_mb, searches, st),
    });
    }
    // short forced mates searched very deep (iteration 34-40, bounded by six seconds): mate scores as
    // window bounds at nodes with a remaining depth of 30 and more. Candidates are sparse random positions
    // (at most six men); those in which a depth-6 search announces a mate in two to four are kept.
    if deep_here {
        let cases = tier.pick(24, 400);
        let strat = tape(200..400).prop_map(Case::Tape);
        run.proptest_part("very_deep_short_mates", RULE, strat, cases, move |c: &Case, st: &mut Stats| match c {
            Case::Tape(data) => {
                let mut t = Tape::new(data);
                let mut found: Option<Pos> = None;
                let mut narrow = false;
                for attempt in 0..60 {
                    let mut p = Pos::empty();
                    if attempt % 4 != 3 {
                        // smothered corner: the defending king is locked in by his own rook pawn and the
                        // attacking king, he only has spare pawn moves - trees so narrow that iteration 35
                        // takes seconds (8/7p/8/8/4N3/8/p1K5/k7 w and its relatives)
                        use crate::refchess::sq;
                        let flip = t.pick(2) == 0;
                        let f = |x: i32| if flip { 7 - x } else { x };
                        p.board[sq(f(0), 0) as usize] = Some(Pc::new(false, Kind::K));
                        p.board[sq(f(0), 1) as usize] = Some(Pc::new(false, Kind::P));
                        p.board[sq(f(2), t.pick(2) as i32) as usize] = Some(Pc::new(true, Kind::K));
                        let ns = t.pick(64);
                        if p.board[ns].is_none() {
                            p.board[ns] = Some(Pc::new(true, [Kind::N, Kind::N, Kind::B][t.pick(3)]));
                        }
                        for _ in 0..1 + t.pick(2) {
                            let s = sq(3 + t.pick(5) as i32, 3 + t.pick(4) as i32) as usize;
                            if p.board[s].is_none() {
                                p.board[s] = Some(Pc::new(false, Kind::P));
                            }
                        }
                        p.white_to_move = true;
                        p.fullmove = 1 + t.pick(40) as u32;
                        if t.pick(2) == 0 {
                            p = p.mirror();
                        }
                        if p.validate().is_err() || p.legal_moves().is_empty() {
                            continue;
                        }
                        let spec = SearchSpec { fen: p.to_fen(), moves: vec![], limit: Limit::Depth(6) };
                        let Some((_, game)) = build(&spec) else { continue };
                        let mut state = PersistentState::new(1);
                        let Ok(out) = run_search(&game, &mut state, &spec.limit, 0) else { continue };
                        if out.infos.last().and_then(|i| i.mate).map_or(false, |m| (2..=4).contains(&m)) {
                            found = Some(p);
                            narrow = true;
                            break;
                        }
                        continue;
                    }
                    let n_extra = 1 + t.pick(4);
                    let mut squares: Vec<usize> = vec![];
                    for _ in 0..(2 + n_extra) {
                        let s = t.pick(64);
                        if !squares.contains(&s) {
                            squares.push(s);
                        }
                    }
                    if squares.len() < 3 {
                        continue;
                    }
                    p.board[squares[0]] = Some(Pc::new(true, Kind::K));
                    p.board[squares[1]] = Some(Pc::new(false, Kind::K));
                    for s in &squares[2..] {
                        let kind = [Kind::Q, Kind::R, Kind::N, Kind::B, Kind::P, Kind::P][t.pick(6)];
                        if kind == Kind::P && (*s < 8 || *s >= 56) {
                            continue;
                        }
                        p.board[*s] = Some(Pc::new(t.pick(3) != 0, kind));
                    }
                    p.white_to_move = true;
                    p.fullmove = 1 + t.pick(40) as u32;
                    if p.validate().is_err() || p.legal_moves().is_empty() {
                        continue;
                    }
                    let spec = SearchSpec { fen: p.to_fen(), moves: vec![], limit: Limit::Depth(6) };
                    let Some((_, game)) = build(&spec) else { continue };
                    let mut state = PersistentState::new(1);
                    let Ok(out) = run_search(&game, &mut state, &spec.limit, 0) else { continue };
                    if out.infos.last().and_then(|i| i.mate).map_or(false, |m| (2..=4).contains(&m)) {
                        found = Some(p);
                        break;
                    }
                }
                let Some(p) = found else {
                    st.discard();
                    return Ok(());
                };
                st.class(if narrow { "smothered_corner_mate_searched_to_iteration_34_or_more" } else { "sparse_position_with_a_forced_mate_in_2_to_4" });
                let depth = 34 + t.pick(6) as u8;
                run_list(16, &[SearchSpec { fen: p.to_fen(), moves: vec![], limit: Limit::DepthUnderMoveTime { depth, ms: 6000 } }], st)
            }
            Case::Explicit { hash_mb, searches } => run_list(*hash_mb, searches, st),
        });
    }
    // all 255 iterations: positions whose tree is so small (every reply an immediate draw by the
    // fifty-move rule or by material) that a search to the largest depth takes
    // milliseconds; the reported depths must still be 1, 2, 3 ... and stop at the limit
    let cases = tier.pick(600, 10_000);
    let strat = tape(12..40).prop_map(Case::Tape);
    run.proptest_part("all_iterations", RULE, strat, cases, move |c: &Case, st: &mut Stats| match c {
        Case::Tape(data) => {
            let mut t = Tape::new(data);
            // kings and one piece, or two minor pieces of one colour: whatever is captured, what remains
            // is a dead draw, so no line is longer than two plies (clock 98) or one (clock 99 and more)
            let mut p = Pos::empty();
            let mut place = |p: &mut Pos, t: &mut Tape, pc: Pc| {
                for _ in 0..8 {
                    let s = t.pick(64);
                    if p.board[s].is_none() {
                        p.board[s] = Some(pc);
                        return;
                    }
                }
            };
            place(&mut p, &mut t, Pc::new(true, Kind::K));
            place(&mut p, &mut t, Pc::new(false, Kind::K));
            let white = t.pick(2) == 0;
            if t.pick(3) == 0 {
                for _ in 0..2 {
                    let pc = Pc::new(white, [Kind::B, Kind::N][t.pick(2)]);
                    place(&mut p, &mut t, pc);
                }
            } else {
                let pc = Pc::new(white, [Kind::R, Kind::Q, Kind::B, Kind::N][t.pick(4)]);
                place(&mut p, &mut t, pc);
            }
            p.white_to_move = t.pick(2) == 0;
            p.halfmove = [99u32, 99, 98, 100, 120][t.pick(5)];
            p.fullmove = 100;
            if p.validate().is_err() || p.legal_moves().is_empty() {
                st.discard();
                return Ok(());
            }
            let depth = [255u8, 255, 254, 250, 200][t.pick(5)];
            if p.in_check() {
                st.class("root_in_check");
            }
            st.class(if depth == 255 { "depth_limit_255" } else { "depth_limit_120_to_254" });
            run_list(1, &[SearchSpec { fen: p.to_fen(), moves: vec![], limit: Limit::Depth(depth) }], st)
        }
        Case::Explicit { hash_mb, searches } => run_list(*hash_mb, searches, st),
    });
    if profile_name() == "checked" && super::ucilib::engine_available() {
        let cases = tier.pick(400, 6_000);
        let strat = tape(16..120).prop_map(Case::Tape);
        run.proptest_part("binary_info_lines", RULE, strat, cases, move |c: &Case, st: &mut Stats| match c {
            Case::Tape(t) => match build_case(t, tier, max_depth.min(6), 6) {
                Some((h, s)) => run_list_binary(h, &s, st),
                None => {
                    st.discard();
                    Ok(())
                }
            },
            Case::Explicit { hash_mb, searches } => run_list_binary(*hash_mb, searches, st),
        });
    }
    if let Ok(bin) = std::env::var("VERIF_FAST_BIN") {
        if profile_name() == "checked" && run.only_parts.is_empty() {
            run_sub_process(run, &bin, &["searches", "deep_mating_endgames", "very_deep_short_mates", "all_iterations"]);
        }
    }
    RULE
}
