//! C06 FEN is lossless on legal positions and never crashes the reader.
use super::common::*;
use crate::adapter::*;
use crate::chess::fen;
use crate::chess::zobrist;
use crate::framework::*;
use crate::gen::{self, Mix};
use crate::refchess::{Pc, Pos};
use proptest::prelude::*;
use serde::{Deserialize, Serialize};
use serde_json::json;

pub const RULE: &str = "round trips: legal positions built without the reader (Board::try_from + Game::from_state from a reference position, clocks and move numbers up to 2^31-1): write(g) must equal the reference FEN and parse(write(g)) must equal g in placement, side, rights, e.p. target, halfmove clock, plies and key; canonical FEN texts written by the reference model: write(parse(t)) == t. Hostile text: arbitrary Unicode strings, strings from FEN-shaped regular expressions, and systematic corruptions of valid FENs (a digit +-1, piece inserted/deleted, rank-width pairs that keep the total at 64, 7 or 9 ranks, counters 0 / -1 / 2^31 / 2^32 / 99999999999 / letters, fields missing, duplicated, reordered, tabs, blanks): never a panic; if an independent tokeniser finds a rank whose width is not 8 the result must be Err; if the result is Ok the placement must equal the tokeniser's decoding and write must not panic. Every walk is also played on one engine Game and each position reached by play is written, read back and compared (text, fields, key) as well. Non-trivial = (round trips) position with e.p. target, partial rights or clock > 0; (hostile) text whose first field passes the FEN character set; distinct by text.";

const BIG: [u32; 14] = [0, 1, 2, 49, 50, 99, 100, 101, 150, 5000, 0x7fff_fffe, 0x7fff_ffff, 0x8000_0000, 65536];

#[derive(Serialize, Deserialize, Clone, Debug)]
pub struct RoundTrip {
    pos: PosCase,
    clock: u16,
    number: u16,
}

/// Independent tokeniser of the board field: Some(ranks) where each rank is its decoded squares,
/// None if the field contains characters outside the FEN alphabet.
fn tokenise_board(field: &str) -> Option<Vec<Vec<Option<Pc>>>> {
    let mut ranks = vec![];
    for rk in field.split('/') {
        let mut v = vec![];
        for c in rk.chars() {
            if let Some(d) = c.to_digit(10) {
                if !(1..=8).contains(&d) {
                    return None;
                }
                for _ in 0..d {
                    v.push(None);
                }
            } else if let Some(pc) = "PNBRQKpnbrqk".contains(c).then(|| Pc::from_fen_char(c)).flatten() {
                v.push(Some(pc));
            } else {
                return None;
            }
        }
        ranks.push(v);
    }
    Some(ranks)
}

pub fn check_hostile(text: &str, st: &mut Stats) -> Result<(), Fail> {
    st.eval();
    let field = text.split(|c: char| c == ' ' || c == '\t').next().unwrap_or("");
    let tok = tokenise_board(field);
    if tok.is_some() && !field.is_empty() {
        st.nontrivial(&text);
        if st.want_nontrivial_sample() {
            st.nontrivial_sample(json!(text));
        }
    } else if st.want_sample() {
        st.sample(json!(text));
    }
    let res = catch(|| fen::parse(text));
    let res = match res {
        Ok(r) => r,
        Err(p) => {
            let sig = panic_signature(&p);
            return Err(Fail::new(&format!("reader_panic:{sig}"), format!("fen::parse panicked on {text:?}: {p}")));
        }
    };
    st.class(if res.is_ok() { "parse_ok" } else { "parse_err" });
    if let Some(ranks) = &tok {
        let bad_width = ranks.iter().any(|r| r.len() != 8);
        if bad_width {
            st.class("rank_width_not_8");
            if ranks.len() == 8 && ranks.iter().map(Vec::len).sum::<usize>() == 64 {
                st.class("rank_width_not_8_but_total_64");
            }
            if res.is_ok() {
                return Err(Fail::new("reader_accepts_bad_rank_width", format!("fen::parse accepted {text:?} although a rank does not describe exactly eight squares")));
            }
        }
    }
    if let Ok(g) = &res {
        // placement must be the tokeniser's decoding
        let Some(ranks) = &tok else {
            return Err(Fail::new("reader_accepts_bad_alphabet", format!("fen::parse accepted {text:?} although the board field has characters outside the FEN alphabet")));
        };
        if ranks.len() != 8 {
            return Err(Fail::new("reader_accepts_bad_rank_count", format!("fen::parse accepted {text:?} with {} ranks", ranks.len())));
        }
        let e = from_game(g);
        for (i, rk) in ranks.iter().enumerate() {
            let r = 7 - i;
            for (f, pc) in rk.iter().enumerate() {
                if f < 8 && e.board[r * 8 + f] != *pc {
                    return Err(Fail::new("reader_misplaces_piece", format!("fen::parse({text:?}) puts {:?} on {} where the text says {:?}", e.board[r * 8 + f], crate::refchess::sq_name((r * 8 + f) as u8), pc)));
                }
            }
        }
        if let Err(p) = catch(|| fen::write(g)) {
            return Err(Fail::new(&format!("writer_panic:{}", panic_signature(&p)), format!("fen::write panicked on the result of parse({text:?}): {p}")));
        }
    }
    Ok(())
}

/// systematic corruption of a valid FEN, driven by the tape
fn corrupt(fen_text: &str, t: &mut Tape) -> (String, &'static str) {
    let fields: Vec<String> = fen_text.split(' ').map(str::to_string).collect();
    let mut f = fields.clone();
    let ranks: Vec<String> = f[0].split('/').map(str::to_string).collect();
    let edit_rank = |r: &str, t: &mut Tape, grow: bool| -> String {
        // grow or shrink a rank by one square
        let chars: Vec<char> = r.chars().collect();
        let idxs: Vec<usize> = (0..chars.len()).collect();
        let i = idxs[t.pick(idxs.len())];
        let mut out: Vec<char> = chars.clone();
        if grow {
            if let Some(d) = chars[i].to_digit(10) {
                if d < 8 {
                    out[i] = char::from_digit(d + 1, 10).unwrap();
                } else {
                    out.insert(i, 'p');
                }
            } else {
                out.insert(i, ['P', 'n', '1', 'q'][t.pick(4)]);
            }
        } else if let Some(d) = chars[i].to_digit(10) {
            if d > 1 {
                out[i] = char::from_digit(d - 1, 10).unwrap();
            } else {
                out.remove(i);
            }
        } else {
            out.remove(i);
        }
        out.into_iter().collect()
    };
    const COUNTERS: [&str; 32] = ["0", "-1", "1", "2", "127", "128", "255", "256", "257", "32767", "32768", "65535", "65536", "65537", "2147483646", "2147483647", "2147483648", "2147483649", "2147483650", "4294967294", "4294967295", "4294967296", "4294967297", "99999999999", "x", "1.5", "", "+3", "00", "1e3", "18446744073709551615", "18446744073709551616"];
    let kind = t.pick(16);
    let label: &'static str;
    match kind {
        0 => {
            let mut r = ranks.clone();
            let i = t.pick(8);
            r[i] = edit_rank(&r[i], t, true);
            f[0] = r.join("/");
            label = "rank_plus_one";
        }
        1 => {
            let mut r = ranks.clone();
            let i = t.pick(8);
            r[i] = edit_rank(&r[i], t, false);
            f[0] = r.join("/");
            label = "rank_minus_one";
        }
        2 | 3 => {
            // widths wrong but total still 64
            let mut r = ranks.clone();
            let i = t.pick(8);
            let j = (i + 1 + t.pick(7)) % 8;
            r[i] = edit_rank(&r[i], t, true);
            r[j] = edit_rank(&r[j], t, false);
            f[0] = r.join("/");
            label = "rank_pair_total_64";
        }
        4 => {
            let mut r = ranks.clone();
            r.remove(t.pick(8));
            f[0] = r.join("/");
            label = "seven_ranks";
        }
        5 => {
            let mut r = ranks.clone();
            let i = t.pick(8);
            r.insert(i, ["8", "pppppppp", "4P3"][t.pick(3)].to_string());
            f[0] = r.join("/");
            label = "nine_ranks";
        }
        6 => {
            if f.len() > 5 {
                f[5] = COUNTERS[t.pick(COUNTERS.len())].to_string();
            }
            label = "move_number";
        }
        7 => {
            if f.len() > 4 {
                f[4] = COUNTERS[t.pick(COUNTERS.len())].to_string();
            }
            label = "halfmove_clock";
        }
        8 => {
            let n = t.pick(f.len());
            f.truncate(n);
            label = "fields_missing";
        }
        9 => {
            let i = t.pick(f.len());
            let x = f[i].clone();
            f.insert(i, x);
            label = "field_duplicated";
        }
        10 => {
            let i = t.pick(f.len());
            let j = t.pick(f.len());
            f.swap(i, j);
            label = "fields_reordered";
        }
        11 => {
            let s = f.join(["\t", "  ", " \t "][t.pick(3)]);
            return (s, "separators");
        }
        12 => {
            let s = format!("{}{}{}", [" ", "", "\t", "\n"][t.pick(4)], f.join(" "), [" ", "  ", "\n", " x", "\t"][t.pick(5)]);
            return (s, "leading_trailing");
        }
        13 => {
            f[2] = ["KK", "qkQK", "KQkqKQkq", "", "AHah", "-K", "k-"][t.pick(7)].to_string();
            label = "castling_field";
        }
        14 => {
            f[3] = ["e9", "i3", "e", "3e", "--", "E3", "a0", "h8h8"][t.pick(8)].to_string();
            label = "ep_field";
        }
        _ => {
            // replace one character of the board field by something else
            let mut chars: Vec<char> = f[0].chars().collect();
            let i = t.pick(chars.len());
            chars[i] = ['9', '0', 'x', 'K', '/', ' ', 'é', '8', 'p'][t.pick(9)];
            f[0] = chars.into_iter().collect();
            label = "board_char";
        }
    }
    (f.join(" "), label)
}

pub fn run(run: &mut Run) -> &'static str {
    // (a)+(b) round trips
    let cases = run.tier.pick(400_000, 4_000_000);
    let strat = (pos_case(4..140), any::<u16>(), any::<u16>()).prop_map(|(pos, clock, number)| RoundTrip { pos, clock, number });
    run.proptest_part("round_trip", RULE, strat, cases, |c: &RoundTrip, st: &mut Stats| {
        // every fifth case uses the dense theme (the longest board fields), with ten-digit counters
        let dense = c.clock % 5 == 0;
        let mix = if dense { Mix::Dense } else { Mix::General };
        let walk = c.pos.positions(mix, if dense { 3 } else { 16 }, st);
        // the same walk is also played on one engine Game (make_move): a position reached by play must
        // survive the round trip just like one that was set up, key included
        let mut played: Option<crate::chess::game::Game> = None;
        for (i, gp) in walk.iter().enumerate() {
            if i == 0 {
                played = Some(to_game(&gp.pos));
            } else if let Some(g) = played.as_mut() {
                let prev = &walk[i - 1].pos;
                let mv = prev.legal_moves().into_iter().find(|m| prev.make(m) == gp.pos);
                match mv.and_then(|m| find_move(g, &m)) {
                    Some(em) => {
                        g.make_move(em);
                        st.eval();
                        st.class("position_reached_by_play");
                        let want = gp.pos.to_fen();
                        let exp = || json!({"pos": {"Pair": [prev.to_fen(), want]}, "clock": 1, "number": 1});
                        let text = fen::write(g);
                        if text != want {
                            return Err(Fail::new("writer_text:reached_by_play", format!("fen::write of a game reached by play gives {text:?}, reference text is {want:?}")).explicit(exp()));
                        }
                        match catch(|| fen::parse(&text)) {
                            Ok(Ok(g2)) => {
                                if g2.zobrist != g.zobrist {
                                    return Err(Fail::new("round_trip_key:reached_by_play", format!("{want} reached by play (from {}) carries key {:#x}, but parse(write(g)) has key {:#x}", walk[0].pos.to_fen(), g.zobrist.0, g2.zobrist.0)).explicit(exp()));
                                }
                                if from_game(&g2) != from_game(g) || g2.halfmove_clock != g.halfmove_clock || g2.plies != g.plies {
                                    return Err(Fail::new("round_trip_position:reached_by_play", format!("parse(write(g)) differs from the game reached by play at {want}")).explicit(exp()));
                                }
                            }
                            Ok(Err(e)) => return Err(Fail::new("reader_rejects_own_output", format!("fen::parse rejects the writer's output {text:?}: {e}")).explicit(exp())),
                            Err(pm) => return Err(Fail::new(&format!("reader_panic:{}", panic_signature(&pm)), format!("fen::parse panicked on {text:?}: {pm}")).explicit(exp())),
                        }
                    }
                    None => played = None,
                }
            }
        }
        for (i, gp) in walk.into_iter().enumerate() {
            let mut p = gp.pos.clone();
            if (i % 3 == 0 || dense) && matches!(c.pos, PosCase::Tape(_)) {
                // extreme clocks and move numbers
                p.halfmove = if p.ep.is_some() { 0 } else { BIG[(c.clock as usize + i) % BIG.len()] };
                p.fullmove = BIG[(c.number as usize + i) % BIG.len()].max(1);
                if c.number % 5 == 0 {
                    p.fullmove = 1 + (c.number as u32) * 32771 % 0x7fff_ffff;
                }
            }
            st.eval();
            let ex = || json!({"pos": {"Fen": p.to_fen()}, "clock": 0, "number": 0});
            let want = p.to_fen();
            if p.ep.is_some() || (p.castle.iter().any(|c| *c) && !p.castle.iter().all(|c| *c)) || p.halfmove > 0 {
                st.nontrivial(&want);
                st.nontrivial_sample(json!(want));
            } else {
                st.sample(json!(want));
            }
            if p.fullmove > 100_000 {
                st.class("huge_move_number");
            }
            if want.len() >= 97 {
                st.class("fen_text_of_97_or_more_characters");
            }
            for c in gen::material_classes(&p) {
                st.class(c);
            }
            let g = to_game(&p);
            let text = fen::write(&g);
            if text != want {
                return Err(Fail::new("writer_text", format!("fen::write gives {text:?}, reference text is {want:?}")).explicit(ex()));
            }
            // (a) parse(write(g)) == g
            let g2 = match catch(|| fen::parse(&text)) {
                Ok(Ok(g2)) => g2,
                Ok(Err(e)) => return Err(Fail::new("reader_rejects_own_output", format!("fen::parse rejects the writer's output {text:?}: {e}")).explicit(ex())),
                Err(pm) => return Err(Fail::new(&format!("reader_panic:{}", panic_signature(&pm)), format!("fen::parse panicked on the writer's output {text:?}: {pm}")).explicit(ex())),
            };
            let back = from_game(&g2);
            if back != p || g2.plies != g.plies || g2.halfmove_clock != g.halfmove_clock {
                return Err(Fail::new("round_trip_position", format!("parse(write(g)) differs: {} vs {} (plies {} vs {})", back.to_fen(), want, g2.plies, g.plies)).explicit(ex()));
            }
            if g2.zobrist != g.zobrist || g2.zobrist != zobrist::hash(&g2) {
                return Err(Fail::new("round_trip_key", format!("parse(write(g)) has key {:#x}, original {:#x} at {want}", g2.zobrist.0, g.zobrist.0)).explicit(ex()));
            }
            // (b) write(parse(t)) == t for the canonical reference text
            let again = fen::write(&g2);
            if again != want {
                return Err(Fail::new("round_trip_text", format!("write(parse(t)) gives {again:?} for t = {want:?}")).explicit(ex()));
            }
        }
        Ok(())
    });

    // (c) systematic corruptions of valid FENs
    let cases = run.tier.pick(300_000, 3_000_000);
    run.proptest_part("corruptions", RULE, pos_case(8..120), cases, |c: &PosCase, st: &mut Stats| {
        let tp_data: Vec<u16> = match c {
            PosCase::Tape(t) => t.iter().rev().copied().collect(),
            _ => vec![],
        };
        let mut tp = Tape::new(&tp_data);
        if let PosCase::Fen(text) = c {
            // replay form: the hostile text itself
            return check_hostile(text, st);
        }
        for gp in c.positions(Mix::General, 6, st) {
            let base = gp.pos.to_fen();
            for _ in 0..4 {
                let (text, label) = corrupt(&base, &mut tp);
                st.class(label);
                check_hostile(&text, st).map_err(|f| f.explicit(json!({"Fen": text})))?;
            }
        }
        Ok(())
    });

    // (c) arbitrary and FEN-shaped strings
    let cases = run.tier.pick(1_000_000, 20_000_000);
    let shaped = proptest::string::string_regex("[1-8pnbrqkPNBRQK]{0,9}(/[1-8pnbrqkPNBRQK]{0,9}){5,9}( [wbx-]{0,2})?( (-|[KQkqx]{0,5}))?( (-|[a-i][0-9]))?( -?[0-9]{0,12})?( -?[0-9]{0,12})?[ \t]{0,2}").unwrap();
    let near = proptest::string::string_regex("([1-8]|[pnbrqkPNBRQK]{1,8}|[1-7][pnbrqkPNBRQK]{1,7}|[pnbrqkPNBRQK]{1,4}[1-6][pnbrqkPNBRQK]{0,3})(/([1-8]|[pnbrqkPNBRQK]{1,8}|[1-7][pnbrqkPNBRQK]{1,7})){7} [wb] (-|K?Q?k?q?) (-|[a-h][36]) (0|[1-9][0-9]{0,10}) (0|[1-9][0-9]{0,10})").unwrap();
    // syntactically valid FEN text over arbitrary (not necessarily legal) placements, optionally
    // with one character replaced: reaches the accepting paths of the reader
    let cell = prop_oneof![5 => Just('.'), 3 => proptest::sample::select("PNBRQKpnbrqk".chars().collect::<Vec<char>>())];
    let valid = (
        proptest::collection::vec(cell, 64),
        proptest::sample::select(vec!["w", "b"]),
        proptest::sample::select(vec!["-", "K", "Q", "k", "q", "KQ", "kq", "KQkq", "Kk", "Qq", "KQk", "Qkq"]),
        proptest::sample::select(vec!["-", "-", "-", "a3", "e3", "h3", "a6", "d6", "h6", "c4"]),
        prop_oneof![Just(String::new()), (0u32..200).prop_map(|n| format!(" {n}")), any::<u32>().prop_map(|n| format!(" {n}"))],
        prop_oneof![
            Just(String::new()),
            (0u32..300).prop_map(|n| format!(" {n}")),
            any::<u32>().prop_map(|n| format!(" {n}")),
            // neighbours of powers of two, where width and ply-count limits live
            (proptest::sample::select(vec![7u32, 8, 15, 16, 31, 32, 33, 63, 64]), -2i64..=2).prop_map(|(k, d)| format!(" {}", ((1i128 << k) + d as i128).max(0)))
        ],
        proptest::option::weighted(0.3, (any::<proptest::sample::Index>(), proptest::sample::select("1289/ pK-wx0".chars().collect::<Vec<char>>()))),
    )
        .prop_map(|(cells, side, rights, ep, half, full, tweak)| {
            let mut board = String::new();
            for r in 0..8 {
                let mut empty = 0;
                for f in 0..8 {
                    let c = cells[r * 8 + f];
                    if c == '.' {
                        empty += 1;
                    } else {
                        if empty > 0 {
                            board.push_str(&empty.to_string());
                            empty = 0;
                        }
                        board.push(c);
                    }
                }
                if empty > 0 {
                    board.push_str(&empty.to_string());
                }
                if r < 7 {
                    board.push('/');
                }
            }
            // the move number is only read when the clock is present
            let tail = if half.is_empty() { String::new() } else { format!("{half}{full}") };
            let mut text = format!("{board} {side} {rights} {ep}{tail}");
            if let Some((idx, ch)) = tweak {
                let mut chars: Vec<char> = text.chars().collect();
                let i = idx.index(chars.len());
                chars[i] = ch;
                text = chars.into_iter().collect();
            }
            text
        });
    let strat = prop_oneof![2 => any::<String>(), 3 => shaped, 2 => near, 4 => valid, 1 => "\\PC{0,40}"];
    run.proptest_part("strings", RULE, strat, cases, |text: &String, st: &mut Stats| check_hostile(text, st));

    // (d) thorough: coverage-guided fuzzing of the reader (libFuzzer, oracle inside the target); every
    // crashing input is then judged again here, in the checked build, through the same oracle
    if run.tier == Tier::Thorough && run.replay.is_none() && run.only_parts.is_empty() {
        let seeds: Vec<Vec<u8>> = crate::roots_data::REPO_FENS.iter().take(12).map(|f| f.as_bytes().to_vec()).collect();
        match run_fuzz("fen_reader", run.seed, 3_000_000, 8, 120, &seeds) {
            Ok((execs, corpus, crashes)) => {
                run.extra.insert("fuzz".into(), json!({"target": "fen_reader", "engine": "libFuzzer (cargo-fuzz)", "executions": execs, "corpus_files": corpus, "crashing_inputs": crashes.len(), "jobs": 8}));
                let texts: Vec<String> = crashes.iter().filter_map(|b| String::from_utf8(b.clone()).ok()).collect();
                if !texts.is_empty() {
                    run.exhaustive_part("fuzz_crashes", RULE, texts, |text: &String, st: &mut Stats| check_hostile(text, st));
                }
            }
            Err(e) => {
                println!("note: fuzz campaign skipped: {e}");
                run.extra.insert("fuzz".into(), json!({"skipped": e}));
            }
        }
    }
    RULE
}
