//! C20 Static exchange evaluation at the engine's threshold is consistent.
use super::common::*;
use crate::adapter::*;
use crate::engine::eval::Eval;
use crate::engine::see::see;
use crate::framework::*;
use crate::gen::Mix;
use crate::refchess::{attackers_on, file_of, on_board, rank_of, sq, Kind, Mv, Pc, Pos, BISHOP_D, ROOK_D};
use serde_json::json;

pub const RULE: &str = "every legal non-e.p. capture (incl. capturing promotions) of generated legal positions (tactical mix: 3-8 attackers and defenders of one square with batteries, kings as last defenders, promoted extra queens, and a long-exchange theme with up to eleven attackers a side: four knights, bishop batteries on both diagonals, doubled rooks and a queen on the file). With v = see(g, m, Eval(0)): (a) v equals the verdict for the mirrored move in the mirrored position; (b) if no enemy piece attacks the target after the capture (ray-walk attack test in the occupancy after the move, pins ignored) then v is true; (c) if value(captured) >= value(capturing piece) then v is true (piece values read off the engine's evaluator by probing thresholds: 100/300/300/500/900 today); (d) an independent swap-list minimax (least valuable attacker, x-rays re-scanned after every capture, king captures only when no enemy attacker is left, mover needs >= 0) that branches over every choice among equally valued attackers: if all branches agree v must equal that verdict, otherwise the capture is counted as tie-ambiguous and only (b),(c) are asserted. Non-trivial = capture with >= 2 attackers on each side or an x-ray attacker; distinct by (position, move).";

const SWAP_BUDGET: usize = 6_000;

/// The property speaks of "the same piece values": they are read off the engine's own evaluator (the
/// largest threshold at which a king's capture of an undefended man of that kind still passes), so a
/// retuned value table changes the reference with it. The king's value only has to exceed all others.
fn value(k: Kind) -> i32 {
    static V: std::sync::OnceLock<[i32; 5]> = std::sync::OnceLock::new();
    let v = V.get_or_init(|| {
        let mut out = [100, 300, 300, 500, 900];
        for (i, kind) in [Kind::P, Kind::N, Kind::B, Kind::R, Kind::Q].into_iter().enumerate() {
            let mut p = Pos::empty();
            p.board[crate::refchess::sq(4, 3) as usize] = Some(Pc::new(true, Kind::K));
            p.board[crate::refchess::sq(7, 7) as usize] = Some(Pc::new(false, Kind::K));
            // a victim next to the white king that does not attack it from there: pawn / bishop above
            // (a black pawn attacks downwards-diagonally only), knight above, rook / queen diagonal...
            // a rook or queen next to the king gives check, which does not matter to the evaluator
            let vs = match kind {
                Kind::R => crate::refchess::sq(5, 4),
                _ => crate::refchess::sq(4, 4),
            };
            p.board[vs as usize] = Some(Pc::new(false, kind));
            p.white_to_move = true;
            let g = to_game(&p);
            let Some(m) = p.legal_moves().into_iter().find(|m| m.from == crate::refchess::sq(4, 3) && m.to == vs) else { continue };
            let Some(em) = find_move(&g, &m) else { continue };
            let probe = |t: i32| catch(|| see(&g, em, Eval(t as i16))).unwrap_or(false);
            if !probe(0) || probe(20_000) {
                continue; // not a monotone evaluator: keep the conventional value
            }
            let (mut lo, mut hi) = (0, 20_000); // probe(lo) true, probe(hi) false
            while hi - lo > 1 {
                let mid = (lo + hi) / 2;
                if probe(mid) {
                    lo = mid;
                } else {
                    hi = mid;
                }
            }
            out[i] = lo;
        }
        out
    });
    match k {
        Kind::P => v[0],
        Kind::N => v[1],
        Kind::B => v[2],
        Kind::R => v[3],
        Kind::Q => v[4],
        Kind::K => 1_000_000,
    }
}

/// All attackers (either colour) of `target` on `board` by ray walk / offsets.
fn attackers_both(board: &[Option<Pc>; 64], target: u8) -> Vec<u8> {
    let mut v = attackers_on(board, target, true);
    v.extend(attackers_on(board, target, false));
    v
}

/// Independent swap: returns the set of outcomes {net gain for the side to move at this point},
/// branching over every least-valued attacker (ties between equally valued pieces). Memoised on the
/// board (long exchanges with many equal pieces would otherwise branch factorially).
/// `board` has the piece to be captured standing on `target`; `side` is to capture.
fn swap_outcomes(board: &[Option<Pc>; 64], target: u8, side_white: bool, depth: u32, memo: &mut std::collections::HashMap<(u64, bool), Vec<i32>>) -> Vec<i32> {
    let key = (crate::framework::hash_of(board), side_white);
    if let Some(v) = memo.get(&key) {
        return v.clone();
    }
    let victim = board[target as usize].unwrap();
    let mine: Vec<u8> = attackers_on(board, target, side_white);
    if mine.is_empty() || depth > 60 {
        return vec![0];
    }
    if memo.len() > SWAP_BUDGET {
        // too many distinct exchange states: give up on this capture (reported as ambiguous, which
        // asserts nothing) rather than spend seconds on it
        return vec![0, i32::MAX / 4];
    }
    let min_val = mine.iter().map(|s| value(board[*s as usize].unwrap().kind)).min().unwrap();
    let cands: Vec<u8> = mine.iter().copied().filter(|s| value(board[*s as usize].unwrap().kind) == min_val).collect();
    let mut out: Vec<i32> = vec![];
    for from in cands {
        let pc = board[from as usize].unwrap();
        let mut b = *board;
        b[from as usize] = None;
        b[target as usize] = Some(pc);
        if pc.kind == Kind::K && !attackers_on(&b, target, !side_white).is_empty() {
            // the king may capture only if no enemy attacker is left afterwards
            out.push(0);
            continue;
        }
        for reply in swap_outcomes(&b, target, !side_white, depth + 1, memo) {
            // may also decline to capture at all
            out.push((value(victim.kind) - reply).max(0));
        }
    }
    out.sort_unstable();
    out.dedup();
    memo.insert(key, out.clone());
    out
}

/// verdicts {true,false} that the independent computation allows for capture m at threshold 0
fn reference_verdicts(p: &Pos, m: &Mv) -> Vec<bool> {
    let us = p.white_to_move;
    let mover = p.board[m.from as usize].unwrap();
    let captured = p.board[m.to as usize].unwrap();
    let mut gain = value(captured.kind);
    let mut b = p.board;
    b[m.from as usize] = None;
    let placed = match m.promo {
        Some(k) => {
            gain += value(k) - value(Kind::P);
            Pc::new(us, k)
        }
        None => mover,
    };
    b[m.to as usize] = Some(placed);
    let mut memo = std::collections::HashMap::new();
    let mut v: Vec<bool> = swap_outcomes(&b, m.to, !us, 0, &mut memo).into_iter().map(|reply| gain - reply >= 0).collect();
    v.sort_unstable();
    v.dedup();
    v
}

fn xray_present(p: &Pos, m: &Mv) -> bool {
    // a slider of either colour stands behind another attacker on a line through the target
    for (dirs, a) in [(&ROOK_D, Kind::R), (&BISHOP_D, Kind::B)] {
        for (df, dr) in dirs.iter() {
            let (mut f, mut r) = (file_of(m.to) + df, rank_of(m.to) + dr);
            let mut seen = 0;
            while on_board(f, r) {
                if let Some(pc) = p.board[sq(f, r) as usize] {
                    let slides = pc.kind == a || pc.kind == Kind::Q || (seen == 0 && pc.kind == Kind::P && a == Kind::B);
                    if !slides {
                        break;
                    }
                    seen += 1;
                    if seen >= 2 {
                        return true;
                    }
                }
                f += df;
                r += dr;
            }
        }
    }
    false
}

pub fn check_position(p: &Pos, st: &mut Stats) -> Result<(), Fail> {
    let g = to_game(p);
    let legal = p.legal_moves();
    let fen = p.to_fen();
    let ex = || explicit_fen(p);
    let mp = p.mirror();
    let mg = to_game(&mp);
    for m in legal.iter().filter(|m| m.capture && !m.ep) {
        let Some(em) = find_move(&g, m) else { continue };
        let mm = Mv { from: m.from ^ 56, to: m.to ^ 56, ..*m };
        let Some(emm) = find_move(&mg, &mm) else { continue };
        st.eval();
        let mover = p.board[m.from as usize].unwrap();
        let captured = p.board[m.to as usize].unwrap();
        let v = match catch(|| see(&g, em, Eval(0))) {
            Ok(v) => v,
            Err(pm) => return Err(Fail::new(&format!("see_panic:{}", panic_signature(&pm)), format!("{fen}: see({}) panicked: {pm}", m.uci())).explicit(ex())),
        };
        // occupancy after the move
        let mut b = p.board;
        b[m.from as usize] = None;
        b[m.to as usize] = Some(match m.promo {
            Some(k) => Pc::new(p.white_to_move, k),
            None => mover,
        });
        let defenders = attackers_on(&b, m.to, !p.white_to_move).len();
        let attackers = attackers_on(&b, m.to, p.white_to_move).len() + 1;
        let xray = xray_present(p, m);
        if (attackers >= 2 && defenders >= 2) || xray {
            st.nontrivial(&(p.identity(), m.key()));
            if st.want_nontrivial_sample() {
                st.nontrivial_sample(json!({"fen": fen, "capture": m.uci(), "verdict": v, "attackers": attackers, "defenders": defenders, "xray": xray}));
            }
        } else if st.want_sample() {
            st.sample(json!({"fen": fen, "capture": m.uci(), "verdict": v}));
        }
        if xray {
            st.class("xray");
        }
        if attackers + defenders >= 17 {
            st.class("17_or_more_men_bear_on_the_square");
        }
        if m.promo.is_some() {
            st.class("capturing_promotion");
        }
        st.class(if v { "verdict_true" } else { "verdict_false" });
        // (a) colour symmetry
        let vm = see(&mg, emm, Eval(0));
        let verdicts = reference_verdicts(p, m);
        let ambiguous = verdicts.len() > 1;
        if ambiguous {
            st.class("tie_ambiguous");
        }
        if v != vm {
            let sig = if ambiguous { "see:mirror:tie_ambiguous" } else { "see:mirror" };
            return Err(Fail::new(sig, format!("{fen}: see({}) = {v} but the mirrored capture in {} gives {vm}", m.uci(), mp.to_fen())).explicit(ex()));
        }
        // (b) undefended target
        if defenders == 0 {
            st.class("undefended");
            if !v {
                return Err(Fail::new("see:undefended", format!("{fen}: see({}) is false although nothing defends {}", m.uci(), crate::refchess::sq_name(m.to))).explicit(ex()));
            }
        }
        // (c) victim at least as valuable as the capturing piece
        if value(captured.kind) >= value(mover.kind) {
            st.class("victim_ge_attacker");
            if !v {
                return Err(Fail::new("see:victim_ge_attacker", format!("{fen}: see({}) is false although {:?} takes {:?}", m.uci(), mover.kind, captured.kind)).explicit(ex()));
            }
        }
        // (d) independent swap list where ties cannot matter
        if !ambiguous && verdicts[0] != v {
            return Err(Fail::new("see:swap_list", format!("{fen}: see({}) = {v} but the independent swap list gives {} ({} attackers, {} defenders)", m.uci(), verdicts[0], attackers, defenders))
                .with(json!({"fen": fen, "move": m.uci(), "engine": v, "reference": verdicts[0]}))
                .explicit(ex()));
        }
    }
    Ok(())
}

pub fn run(run: &mut Run) -> &'static str {
    let cases = run.tier.pick(600_000, 12_000_000);
    run.proptest_part("captures", RULE, pos_case(4..160), cases, |c: &PosCase, st: &mut Stats| {
        let mix = match c {
            PosCase::Tape(t) if t.last().map_or(false, |x| x % 4 == 0) => Mix::General,
            _ => Mix::Tactical,
        };
        for gp in c.positions(mix, 10, st) {
            check_position(&gp.pos, st)?;
        }
        Ok(())
    });
    // very long exchanges (a part of its own: the branching reference is costly there)
    let cases = run.tier.pick(1_600, 100_000);
    run.proptest_part("long_exchanges", RULE, pos_case(4..60), cases, |c: &PosCase, st: &mut Stats| {
        for gp in c.positions(Mix::LongExchange, 1, st) {
            check_position(&gp.pos, st)?;
        }
        Ok(())
    });
    // two positions whose keys agree on most bits contain the same capture (same squares) with
    // different true verdicts: the defender of the target exists in the first one only. Judged one
    // after the other on one thread.
    let cases = run.tier.pick(6_000, 150_000);
    run.proptest_part("positions_whose_keys_agree_on_most_bits", RULE, pos_case(80..200), cases, |c: &PosCase, st: &mut Stats| {
        match c {
            PosCase::Tape(data) => {
                let mut t = Tape::new(data);
                let mi = t.pick(super::collide::MASKS.len());
                let mut base = super::collide::kings_base(&mut t);
                base.white_to_move = true;
                let (tf, tr) = (1 + t.pick(6) as i32, 3 + t.pick(3) as i32);
                let target = crate::refchess::sq(tf, tr);
                let from = crate::refchess::sq(tf, tr - 1);
                let def = crate::refchess::sq(tf + if t.pick(2) == 0 { 1 } else { -1 }, tr + 1);
                if [target, from, def].iter().any(|s| base.board[*s as usize].is_some()) {
                    st.discard();
                    return Ok(());
                }
                base.board[target as usize] = Some(Pc::new(false, [Kind::P, Kind::P, Kind::N, Kind::B][t.pick(4)]));
                base.board[from as usize] = Some(Pc::new(true, [Kind::Q, Kind::R, Kind::Q, Kind::R][t.pick(4)]));
                if base.validate().is_err() {
                    st.discard();
                    return Ok(());
                }
                let Some(pair) = super::collide::colliding_pair(&mut t, &base, Some((def, Pc::new(false, Kind::P))), mi) else {
                    st.discard();
                    return Ok(());
                };
                st.class(&format!("keys_agree_on:{}", pair.mask_name));
                // defended first (verdict false), then undefended (verdict true): a verdict remembered
                // under a part of the key would be handed to the wrong position
                let (first, second) = if t.pick(4) == 0 { (&pair.a, &pair.b) } else { (&pair.b, &pair.a) };
                check_position(first, st)?;
                check_position(second, st).map_err(|mut f| {
                    f.msg = format!("{} [judged right after {}, whose key agrees on the {}]", f.msg, first.to_fen(), pair.mask_name);
                    f.explicit = Some(json!({"Pair": [first.to_fen(), second.to_fen()]}));
                    f
                })
            }
            PosCase::Pair(first, second) => {
                for f in [first, second] {
                    if let Ok(p) = Pos::from_fen(f) {
                        if p.validate().is_ok() {
                            check_position(&p, st)?;
                        }
                    }
                }
                Ok(())
            }
            other => {
                for gp in other.positions(Mix::Tactical, 1, st) {
                    check_position(&gp.pos, st)?;
                }
                Ok(())
            }
        }
    });
    // thorough: coverage-guided fuzzing of the walk tape (libFuzzer target `positions`: the C16, C18 and
    // C20 position oracles inside); crashing tapes are judged here by this property's oracle
    let crashes: Vec<PosCase> = super::fuzzglue::campaign(run, "positions", 250_000, 12, 400).into_iter().map(PosCase::Tape).collect();
    if !crashes.is_empty() {
        run.exhaustive_part("fuzz_crashes", RULE, crashes, |c: &PosCase, st: &mut Stats| {
            for gp in c.positions(Mix::General, 16, st) {
                check_position(&gp.pos, st)?;
            }
            Ok(())
        });
    }
    RULE
}
