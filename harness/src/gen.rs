//! Shared generators: legal positions from a choice tape (roots + walks, constructive themes,
//! random placements). Every position produced has been validated by the reference model.

use crate::framework::Tape;
use crate::refchess::*;
use crate::roots_data::REPO_FENS;
use std::sync::OnceLock;

#[derive(Clone, Debug)]
pub struct GenPos {
    pub pos: Pos,
    pub src: &'static str,
}

/// Valid repository FENs, parsed once.
pub fn roots() -> &'static Vec<Pos> {
    static R: OnceLock<Vec<Pos>> = OnceLock::new();
    R.get_or_init(|| {
        let mut v = vec![Pos::start()];
        for f in REPO_FENS.iter().chain(EXTRA_ROOTS.iter()) {
            if let Ok(p) = Pos::from_fen(f) {
                if p.validate().is_ok() && !v.contains(&p) {
                    v.push(p);
                }
            }
        }
        v
    })
}

/// Hand-written themed roots (validated like all others): e.p. with pins, double checks, castling
/// through attack, promotions in check, many queens.
pub const EXTRA_ROOTS: [&str; 24] = [
    "7b/8/8/4Pp2/3K4/8/8/k7 w - f6 0 1",
    "8/8/8/8/k2Pp2Q/8/8/3K4 b - d3 0 1",
    "8/8/3p4/KPp4r/1R3p1k/8/4P1P1/8 w - c6 0 2",
    "4k3/8/8/2pP4/8/8/8/B3K3 w - c6 0 1",
    "4k3/8/4r3/3pP3/8/8/8/4K3 w - d6 0 1",
    "rnb1kbnr/ppp1pppp/8/8/3pP2q/8/PPPP1KPP/RNBQ1BNR b kq e3 0 1",
    "r3k2r/8/8/8/8/5n2/8/R3K2R w KQkq - 0 1",
    "r3k2r/8/8/8/8/8/6p1/R3K2R w KQkq - 0 1",
    "r3k2r/8/8/8/8/8/2p5/R3K2R w KQkq - 0 1",
    "r3k2r/8/8/8/1b6/8/8/R3K2R w KQkq - 0 1",
    "rn2k2r/8/8/8/8/8/8/RN2K2R w KQkq - 0 1",
    "4k3/8/8/8/8/8/5n2/4K2R w K - 0 1",
    "3rk3/2P5/8/8/8/8/8/4K3 w - - 0 1",
    "r3k3/1P6/8/8/8/8/8/4K2r w - - 0 1",
    "n1n1k3/1P6/8/8/8/8/8/r3K3 w - - 0 1",
    "4k3/8/8/8/8/8/3p1p2/4K3 b - - 0 1",
    "QQQQQQQQ/8/8/8/8/7k/Q7/K7 w - - 0 1",
    "qqqqqqqq/q7/8/8/8/8/8/KQ5k b - - 0 1",
    "k7/8/8/8/8/8/R7/KR6 w - - 0 1",
    "8/8/8/8/8/5k2/6q1/7K w - - 0 1",
    "R6k/8/8/8/8/8/8/K7 b - - 99 80",
    "8/8/8/8/8/1k6/8/K1N5 w - - 97 90",
    "r1bqkb1r/pppp1ppp/2n2n2/4p2Q/2B1P3/8/PPPP1PPP/RNB1K1NR w KQkq - 4 4",
    "8/6k1/8/2R5/8/1K6/3Q1p2/8 w - - 1 25",
];

const EXTRA_KINDS: [Kind; 20] = [
    Kind::P,
    Kind::P,
    Kind::P,
    Kind::P,
    Kind::P,
    Kind::P,
    Kind::P,
    Kind::P,
    Kind::N,
    Kind::N,
    Kind::N,
    Kind::B,
    Kind::B,
    Kind::B,
    Kind::R,
    Kind::R,
    Kind::R,
    Kind::Q,
    Kind::Q,
    Kind::N,
];

pub fn ray(from: Sq, d: (i32, i32)) -> Vec<Sq> {
    let mut v = vec![];
    let (mut f, mut r) = (file_of(from) + d.0, rank_of(from) + d.1);
    while on_board(f, r) {
        v.push(sq(f, r));
        f += d.0;
        r += d.1;
    }
    v
}

fn can_hold(s: Sq, pc: Pc) -> bool {
    !(pc.kind == Kind::P && (rank_of(s) == 0 || rank_of(s) == 7))
}

fn put(p: &mut Pos, s: Sq, pc: Pc) -> bool {
    if p.board[s as usize].is_some() || !can_hold(s, pc) {
        return false;
    }
    p.board[s as usize] = Some(pc);
    true
}

fn pick_empty(t: &mut Tape, p: &Pos, avoid: &[Sq]) -> Option<Sq> {
    let free: Vec<Sq> = (0..64u8)
        .filter(|s| p.board[*s as usize].is_none() && !avoid.contains(s))
        .collect();
    if free.is_empty() {
        return None;
    }
    Some(free[t.pick(free.len())])
}

/// Add up to `n` random extra men on free squares; squares in `keep_free` are avoided.
fn sprinkle(t: &mut Tape, p: &mut Pos, n: usize, keep_free: &[Sq]) {
    for _ in 0..n {
        let kind = EXTRA_KINDS[t.pick(EXTRA_KINDS.len())];
        let white = t.pick(2) == 0;
        if let Some(s) = pick_empty(t, p, keep_free) {
            let pc = Pc::new(white, kind);
            // keep material promotion-feasible
            if !material_ok_after(p, pc) {
                continue;
            }
            put(p, s, pc);
        }
    }
}

fn material_ok_after(p: &Pos, pc: Pc) -> bool {
    let cnt = |k: Kind| p.count(pc.white, k) as i32 + i32::from(k == pc.kind);
    let extra = (cnt(Kind::N) - 2).max(0) + (cnt(Kind::B) - 2).max(0) + (cnt(Kind::R) - 2).max(0) + (cnt(Kind::Q) - 1).max(0);
    cnt(Kind::P) + extra <= 8
}

fn place_king_safely(t: &mut Tape, p: &mut Pos, white: bool, avoid: &[Sq]) -> bool {
    // try a few squares chosen by the tape: not adjacent to the other king, not attacked if the
    // king belongs to the side not to move
    let other = p.king_sq(!white);
    for _ in 0..6 {
        let Some(s) = pick_empty(t, p, avoid) else { return false };
        if let Some(o) = other {
            if (file_of(o) - file_of(s)).abs() <= 1 && (rank_of(o) - rank_of(s)).abs() <= 1 {
                continue;
            }
        }
        p.board[s as usize] = Some(Pc::new(white, Kind::K));
        if white != p.white_to_move && p.attacked(s, !white) {
            p.board[s as usize] = None;
            continue;
        }
        return true;
    }
    false
}

/// finish a constructed position: clocks, optional mirror, validation
fn finish(t: &mut Tape, mut p: Pos, src: &'static str) -> Option<GenPos> {
    const CLOCKS: [u32; 14] = [0, 0, 0, 1, 3, 5, 49, 50, 97, 98, 99, 100, 101, 150];
    p.halfmove = CLOCKS[t.pick(CLOCKS.len())];
    if p.ep.is_some() {
        p.halfmove = 0;
    }
    p.fullmove = 1 + (t.raw() as u32 % 300).max(p.halfmove / 2);
    if t.pick(2) == 1 {
        p = p.mirror();
    }
    // drop rights that the placement does not support (themes may have moved things)
    let home = |p: &Pos, k: Sq, r: Sq, w: bool| {
        p.board[k as usize] == Some(Pc::new(w, Kind::K)) && p.board[r as usize] == Some(Pc::new(w, Kind::R))
    };
    p.castle[WK] &= home(&p, 4, 7, true);
    p.castle[WQ] &= home(&p, 4, 0, true);
    p.castle[BK] &= home(&p, 60, 63, false);
    p.castle[BQ] &= home(&p, 60, 56, false);
    match p.validate() {
        Ok(()) => Some(GenPos { pos: p, src }),
        Err(_) => None,
    }
}

/// Randomly grant castling rights where king and rook are at home.
fn grant_rights(t: &mut Tape, p: &mut Pos) {
    let home = |p: &Pos, k: Sq, r: Sq, w: bool| {
        p.board[k as usize] == Some(Pc::new(w, Kind::K)) && p.board[r as usize] == Some(Pc::new(w, Kind::R))
    };
    let c = [home(p, 4, 7, true), home(p, 4, 0, true), home(p, 60, 63, false), home(p, 60, 56, false)];
    for i in 0..4 {
        p.castle[i] = c[i] && t.pick(4) != 0;
    }
}

fn slider_for(t: &mut Tape, d: (i32, i32)) -> Kind {
    let diag = d.0 != 0 && d.1 != 0;
    if t.pick(3) == 0 {
        Kind::Q
    } else if diag {
        Kind::B
    } else {
        Kind::R
    }
}

const ALL_D: [(i32, i32); 8] = KING_D;

/// Theme: absolute pins on ranks, files and diagonals with every kind of pinned piece.
fn theme_pin(t: &mut Tape) -> Option<GenPos> {
    let mut p = Pos::empty();
    p.white_to_move = true;
    let k = t.pick(64) as Sq;
    p.board[k as usize] = Some(Pc::new(true, Kind::K));
    let mut keep: Vec<Sq> = vec![];
    let npins = 1 + t.pick(3);
    for _ in 0..npins {
        let d = ALL_D[t.pick(8)];
        let r = ray(k, d);
        if r.len() < 2 {
            continue;
        }
        let i = t.pick(r.len() - 1);
        let j = i + 1 + t.pick(r.len() - i - 1);
        if r[..=j].iter().any(|s| p.board[*s as usize].is_some()) {
            continue;
        }
        let pinned_kind = [Kind::P, Kind::N, Kind::B, Kind::R, Kind::Q, Kind::P][t.pick(6)];
        // sometimes the "pinned" piece is an enemy piece or there are two pieces on the ray (no pin)
        let own = t.pick(8) != 0;
        if !put(&mut p, r[i], Pc::new(own, pinned_kind)) {
            continue;
        }
        put(&mut p, r[j], Pc::new(false, slider_for(t, d)));
        if t.pick(6) == 0 && j > i + 1 {
            // a second blocker: not a pin any more
            let m = i + 1 + t.pick(j - i - 1);
            put(&mut p, r[m], Pc::new(t.pick(2) == 0, Kind::N));
        }
        keep.extend_from_slice(&r[..j]);
    }
    if !place_king_safely(t, &mut p, false, &keep) {
        return None;
    }
    let n = t.pick(12);
    let avoid = if t.pick(4) == 0 { vec![] } else { keep };
    sprinkle(t, &mut p, n, &avoid);
    finish(t, p, "theme_pin")
}

/// Theme: en-passant set-ups by retro-construction (white to move, black just pushed f7-f5 style),
/// combined with pins and discovered attacks on ranks, files and diagonals.
fn theme_ep(t: &mut Tape) -> Option<GenPos> {
    let mut p = Pos::empty();
    p.white_to_move = true;
    let f = t.pick(8) as i32;
    let pushed = sq(f, 4);
    let target = sq(f, 5);
    let origin = sq(f, 6);
    p.board[pushed as usize] = Some(Pc::new(false, Kind::P));
    p.ep = Some(target);
    // capturers
    let mut caps: Vec<Sq> = vec![];
    let which = t.pick(4); // 0 left, 1 right, 2 both, 3 both
    if f > 0 && which != 1 {
        caps.push(sq(f - 1, 4));
    }
    if f < 7 && which != 0 {
        caps.push(sq(f + 1, 4));
    }
    if caps.is_empty() {
        caps.push(if f > 0 { sq(f - 1, 4) } else { sq(f + 1, 4) });
    }
    for c in &caps {
        p.board[*c as usize] = Some(Pc::new(true, Kind::P));
    }
    let cap = caps[t.pick(caps.len())];
    let mut keep: Vec<Sq> = vec![target, origin];
    let variant = t.pick(10);
    let mut king_placed = false;
    // helper: king on one side of `pivot` along -d, enemy slider on the other side along d
    let line = |p: &mut Pos, t: &mut Tape, pivot: Sq, d: (i32, i32), keep: &mut Vec<Sq>, transparent: &[Sq]| -> bool {
        let back = ray(pivot, (-d.0, -d.1));
        let fwd = ray(pivot, d);
        let usable = |v: &Vec<Sq>, p: &Pos| -> usize {
            v.iter()
                .take_while(|s| p.board[**s as usize].is_none() || transparent.contains(s))
                .count()
        };
        let nb = usable(&back, p);
        let nf = usable(&fwd, p);
        let cand_b: Vec<Sq> = back[..nb].iter().copied().filter(|s| p.board[*s as usize].is_none()).collect();
        let cand_f: Vec<Sq> = fwd[..nf].iter().copied().filter(|s| p.board[*s as usize].is_none()).collect();
        if cand_b.is_empty() || cand_f.is_empty() {
            return false;
        }
        let ks = cand_b[t.pick(cand_b.len())];
        let ss = cand_f[t.pick(cand_f.len())];
        p.board[ks as usize] = Some(Pc::new(true, Kind::K));
        p.board[ss as usize] = Some(Pc::new(false, slider_for(t, d)));
        keep.extend(back.iter().take_while(|s| **s != ks));
        keep.extend(fwd.iter().take_while(|s| **s != ss));
        true
    };
    match variant {
        0 | 1 => {
            // (i) king, both pawns and an enemy rook/queen share the rank
            let d = if t.pick(2) == 0 { (1, 0) } else { (-1, 0) };
            let transparent: Vec<Sq> = caps.iter().copied().chain([pushed]).collect();
            // pivot: the outermost of the pawn group in direction -d ... simply use `pushed`
            king_placed = line(&mut p, t, pushed, d, &mut keep, &transparent);
        }
        2 | 3 => {
            // (ii) capturing pawn pinned along the capture diagonal
            let d = (file_of(target) - file_of(cap), 1);
            let tr = [target];
            king_placed = line(&mut p, t, cap, d, &mut keep, &tr);
        }
        4 => {
            // (iii) pinned along the other diagonal
            let d = (-(file_of(target) - file_of(cap)), 1);
            let d = if t.pick(2) == 0 { d } else { (-d.0, -d.1) };
            king_placed = line(&mut p, t, cap, d, &mut keep, &[]);
        }
        5 => {
            // (iv) pinned on its file
            let d = if t.pick(2) == 0 { (0, 1) } else { (0, -1) };
            king_placed = line(&mut p, t, cap, d, &mut keep, &[]);
        }
        6 => {
            // (v) the pushed pawn gives check
            let cands: Vec<Sq> = [-1, 1]
                .iter()
                .filter(|df| on_board(f + **df, 3))
                .map(|df| sq(f + df, 3))
                .filter(|s| p.board[*s as usize].is_none())
                .collect();
            if !cands.is_empty() {
                let ks = cands[t.pick(cands.len())];
                p.board[ks as usize] = Some(Pc::new(true, Kind::K));
                king_placed = true;
            }
        }
        7 => {
            // (vi) the push discovered a check: line through the origin square
            let ds: Vec<(i32, i32)> = ALL_D.iter().copied().filter(|d| d.0 != 0).collect();
            let d = ds[t.pick(ds.len())];
            king_placed = line(&mut p, t, origin, d, &mut keep, &[]);
        }
        8 => {
            // (vii) the captured pawn shields a diagonal (or the rank) to the king
            let ds: Vec<(i32, i32)> = BISHOP_D.to_vec();
            let d = ds[t.pick(ds.len())];
            king_placed = line(&mut p, t, pushed, d, &mut keep, &[]);
        }
        _ => {}
    }
    if !king_placed && !place_king_safely(t, &mut p, true, &keep) {
        return None;
    }
    if !place_king_safely(t, &mut p, false, &keep) {
        return None;
    }
    let n = t.pick(8);
    let avoid = if t.pick(5) == 0 { vec![target, origin] } else { keep.clone() };
    sprinkle(t, &mut p, n, &avoid);
    p.board[target as usize] = None;
    p.board[origin as usize] = None;
    finish(t, p, "theme_ep")
}

/// Theme: single, double and discovered checks (statically legal double checks of any geometry).
fn theme_check(t: &mut Tape) -> Option<GenPos> {
    let mut p = Pos::empty();
    p.white_to_move = true;
    let k = t.pick(64) as Sq;
    p.board[k as usize] = Some(Pc::new(true, Kind::K));
    let nchk = 1 + usize::from(t.pick(3) == 0);
    let mut keep = vec![];
    for _ in 0..nchk {
        match t.pick(4) {
            0 => {
                let c: Vec<Sq> = KNIGHT_D
                    .iter()
                    .filter(|d| on_board(file_of(k) + d.0, rank_of(k) + d.1))
                    .map(|d| sq(file_of(k) + d.0, rank_of(k) + d.1))
                    .collect();
                if !c.is_empty() {
                    put(&mut p, c[t.pick(c.len())], Pc::new(false, Kind::N));
                }
            }
            1 => {
                let c: Vec<Sq> = [-1, 1]
                    .iter()
                    .filter(|d| on_board(file_of(k) + **d, rank_of(k) + 1))
                    .map(|d| sq(file_of(k) + d, rank_of(k) + 1))
                    .collect();
                if !c.is_empty() {
                    put(&mut p, c[t.pick(c.len())], Pc::new(false, Kind::P));
                }
            }
            _ => {
                let d = ALL_D[t.pick(8)];
                let r = ray(k, d);
                if r.is_empty() {
                    continue;
                }
                let j = t.pick(r.len());
                if r[..=j].iter().any(|s| p.board[*s as usize].is_some()) {
                    continue;
                }
                put(&mut p, r[j], Pc::new(false, slider_for(t, d)));
                keep.extend_from_slice(&r[..j]);
            }
        }
    }
    if !place_king_safely(t, &mut p, false, &keep) {
        return None;
    }
    let n = t.pick(14);
    sprinkle(t, &mut p, n, &keep);
    finish(t, p, "theme_check")
}

/// Theme: castling with each transit / target / rook-path square attacked or occupied in turn.
fn theme_castle(t: &mut Tape) -> Option<GenPos> {
    let mut p = Pos::empty();
    p.white_to_move = true;
    p.board[4] = Some(Pc::new(true, Kind::K));
    let wr = t.pick(4);
    if wr != 1 {
        p.board[7] = Some(Pc::new(true, Kind::R));
    }
    if wr != 0 {
        p.board[0] = Some(Pc::new(true, Kind::R));
    }
    // black: sometimes also at home
    let mut file_keep: Vec<Sq> = vec![];
    if t.pick(2) == 0 {
        p.board[60] = Some(Pc::new(false, Kind::K));
        if t.pick(2) == 0 {
            p.board[63] = Some(Pc::new(false, Kind::R));
        }
        if t.pick(2) == 0 {
            p.board[56] = Some(Pc::new(false, Kind::R));
        }
    } else if t.pick(2) == 0 {
        // enemy king on the d- or f-file: castling may give check with the rook
        let f = if t.pick(2) == 0 { 3 } else { 5 };
        let r = 2 + t.pick(6) as i32;
        p.board[sq(f, r) as usize] = Some(Pc::new(false, Kind::K));
        file_keep.extend((1..r).map(|rr| sq(f, rr)));
    } else if !place_king_safely(t, &mut p, false, &[1, 2, 3, 5, 6]) {
        return None;
    }
    let mut keep: Vec<Sq> = vec![1, 2, 3, 5, 6];
    keep.extend_from_slice(&file_keep);
    // attackers aimed at a chosen first-rank square
    let natt = t.pick(3);
    for _ in 0..natt {
        let target = [1u8, 2, 3, 4, 5, 6, 0, 7][t.pick(8)];
        match t.pick(3) {
            0 => {
                let c: Vec<Sq> = KNIGHT_D
                    .iter()
                    .filter(|d| on_board(file_of(target) + d.0, rank_of(target) + d.1))
                    .map(|d| sq(file_of(target) + d.0, rank_of(target) + d.1))
                    .collect();
                put(&mut p, c[t.pick(c.len())], Pc::new(false, Kind::N));
            }
            1 => {
                let c: Vec<Sq> = [-1, 1]
                    .iter()
                    .filter(|d| on_board(file_of(target) + **d, 1))
                    .map(|d| sq(file_of(target) + d, 1))
                    .collect();
                put(&mut p, c[t.pick(c.len())], Pc::new(false, Kind::P));
            }
            _ => {
                let ds = [(0, 1), (1, 1), (-1, 1)];
                let d = ds[t.pick(3)];
                let r = ray(target, d);
                if r.is_empty() {
                    continue;
                }
                let j = t.pick(r.len());
                if r[..=j].iter().any(|s| p.board[*s as usize].is_some()) {
                    continue;
                }
                put(&mut p, r[j], Pc::new(false, slider_for(t, d)));
                keep.extend_from_slice(&r[..j]);
            }
        }
    }
    // occupants of the path squares
    if t.pick(3) == 0 {
        let s = [1u8, 2, 3, 5, 6][t.pick(5)];
        let pc = Pc::new(t.pick(3) != 0, [Kind::N, Kind::B, Kind::Q][t.pick(3)]);
        put(&mut p, s, pc);
    }
    let n = t.pick(10);
    sprinkle(t, &mut p, n, &keep);
    grant_rights(t, &mut p);
    // make sure the themed rights are mostly on
    if p.board[7] == Some(Pc::new(true, Kind::R)) && t.pick(8) != 0 {
        p.castle[WK] = true;
    }
    if p.board[0] == Some(Pc::new(true, Kind::R)) && t.pick(8) != 0 {
        p.castle[WQ] = true;
    }
    finish(t, p, "theme_castle")
}

/// Theme: a castling right whose rook is about to be captured on its home square - by a promoting
/// pawn, a knight, or a piece of any other kind - while a second rook of the same colour stands ready
/// to recapture there. After the recapture a rook is at home again and the king has never moved, but
/// the right is gone for good.
fn theme_corner_recapture(t: &mut Tape) -> Option<GenPos> {
    let mut p = Pos::empty();
    p.white_to_move = false;
    p.board[4] = Some(Pc::new(true, Kind::K));
    let kingside = t.pick(2) == 0;
    let (corner, cf, dir) = if kingside { (7u8, 7i32, -1i32) } else { (0u8, 0i32, 1i32) };
    p.board[corner as usize] = Some(Pc::new(true, Kind::R));
    // the rook that will recapture: on the corner's file, or next to the corner on the first rank
    let second = if t.pick(3) == 0 { sq(cf + dir, 0) } else { sq(cf, 2 + t.pick(5) as i32) };
    p.board[second as usize] = Some(Pc::new(true, Kind::R));
    // the capturer
    match t.pick(4) {
        0 | 1 => {
            // pawn on the seventh (second) rank next to the corner file - unless the second rook stands
            // in front of the corner on the first rank, the capture square is the corner itself
            p.board[sq(cf + dir, 1) as usize] = Some(Pc::new(false, Kind::P));
        }
        2 => {
            let c = [sq(cf + dir, 2), sq(cf + 2 * dir, 1)][t.pick(2)];
            if p.board[c as usize].is_some() {
                return None;
            }
            p.board[c as usize] = Some(Pc::new(false, Kind::N));
        }
        _ => {
            // bishop or queen on the long diagonal
            let r = ray(corner, (dir, 1));
            let j = 1 + t.pick(r.len() - 1);
            p.board[r[j] as usize] = Some(Pc::new(false, if t.pick(2) == 0 { Kind::B } else { Kind::Q }));
        }
    }
    let avoid: Vec<Sq> = (0..8).map(|f| sq(f, 0)).chain(ray(corner, (dir, 1))).chain(ray(corner, (0, 1))).collect();
    if !place_king_safely(t, &mut p, false, &avoid) {
        return None;
    }
    let n = t.pick(6);
    sprinkle(t, &mut p, n, &avoid);
    p.castle = [false; 4];
    p.castle[if kingside { WK } else { WQ }] = true;
    if t.pick(2) == 0 && p.board[(7 - corner) as usize].is_none() {
        p.board[(7 - corner) as usize] = Some(Pc::new(true, Kind::R));
        p.castle[if kingside { WQ } else { WK }] = true;
    }
    if p.attacked(4, false) && !p.white_to_move {
        // white king in check with Black to move: not a legal position
        return None;
    }
    finish(t, p, "theme_corner_recapture")
}

/// Theme: a legal position whose 64-bit key is 0, all ones, 1 or 2^63 - values a program might use as
/// "no key yet" or might test for (constructed, see props/collide.rs).
fn theme_special_key(t: &mut Tape) -> Option<GenPos> {
    let base = crate::props::collide::kings_base(t);
    let target = [0u64, 0, 0, !0u64, 1, 1 << 63][t.pick(6)];
    let p = crate::props::collide::position_with_key(t, &base, target)?;
    Some(GenPos { pos: p, src: "theme_special_key" })
}

/// Theme: promotions, also while in check (capture the checker by promoting, block by promoting).
fn theme_promo(t: &mut Tape) -> Option<GenPos> {
    let mut p = Pos::empty();
    p.white_to_move = true;
    let np = 1 + t.pick(3);
    for _ in 0..np {
        let f = t.pick(8) as i32;
        put(&mut p, sq(f, 6), Pc::new(true, Kind::P));
        // things on the eighth rank next to / in front of the pawn
        for df in [-1, 0, 1] {
            if on_board(f + df, 7) && t.pick(2) == 0 {
                let k = [Kind::N, Kind::B, Kind::R, Kind::Q][t.pick(4)];
                put(&mut p, sq(f + df, 7), Pc::new(false, k));
            }
        }
    }
    // white king: often on the eighth or seventh rank so that rank-8 pieces check it
    let krank = [7, 7, 6, 5, 0, 3][t.pick(6)];
    let kf = t.pick(8) as i32;
    if !put(&mut p, sq(kf, krank), Pc::new(true, Kind::K)) {
        if !place_king_safely(t, &mut p, true, &[]) {
            return None;
        }
    }
    if !place_king_safely(t, &mut p, false, &[]) {
        return None;
    }
    let n = t.pick(8);
    sprinkle(t, &mut p, n, &[]);
    finish(t, p, "theme_promo")
}

/// Theme: several like pieces (and batteries) aimed at one square, with defenders — SAN and SEE.
fn theme_multi(t: &mut Tape) -> Option<GenPos> {
    let mut p = Pos::empty();
    p.white_to_move = true;
    let target = t.pick(64) as Sq;
    let mut keep = vec![target];
    // victim on the target?
    if t.pick(4) != 0 {
        let k = [Kind::P, Kind::N, Kind::B, Kind::R, Kind::Q][t.pick(5)];
        put(&mut p, target, Pc::new(false, k));
    }
    let mut aim = |p: &mut Pos, t: &mut Tape, white: bool, kind: Kind, keep: &mut Vec<Sq>| {
        match kind {
            Kind::N => {
                let c: Vec<Sq> = KNIGHT_D
                    .iter()
                    .filter(|d| on_board(file_of(target) + d.0, rank_of(target) + d.1))
                    .map(|d| sq(file_of(target) + d.0, rank_of(target) + d.1))
                    .collect();
                if !c.is_empty() {
                    put(p, c[t.pick(c.len())], Pc::new(white, Kind::N));
                }
            }
            Kind::P => {
                let dr = if white { -1 } else { 1 };
                let c: Vec<Sq> = [-1, 1]
                    .iter()
                    .filter(|d| on_board(file_of(target) + **d, rank_of(target) + dr))
                    .map(|d| sq(file_of(target) + d, rank_of(target) + dr))
                    .collect();
                if !c.is_empty() {
                    put(p, c[t.pick(c.len())], Pc::new(white, Kind::P));
                }
            }
            Kind::K => {
                let c: Vec<Sq> = KING_D
                    .iter()
                    .filter(|d| on_board(file_of(target) + d.0, rank_of(target) + d.1))
                    .map(|d| sq(file_of(target) + d.0, rank_of(target) + d.1))
                    .collect();
                if !c.is_empty() && p.king_sq(white).is_none() {
                    put(p, c[t.pick(c.len())], Pc::new(white, Kind::K));
                }
            }
            _ => {
                let ds: Vec<(i32, i32)> = match kind {
                    Kind::B => BISHOP_D.to_vec(),
                    Kind::R => ROOK_D.to_vec(),
                    _ => ALL_D.to_vec(),
                };
                let d = ds[t.pick(ds.len())];
                let r = ray(target, d);
                // first free square at or after a chosen distance: pieces already on the ray form a battery
                if r.is_empty() {
                    return;
                }
                let start = t.pick(r.len());
                if let Some(s) = r[start..].iter().find(|s| p.board[**s as usize].is_none()) {
                    put(p, *s, Pc::new(white, kind));
                    keep.extend(r.iter().take_while(|x| *x != s));
                }
            }
        }
    };
    let like = [Kind::N, Kind::B, Kind::R, Kind::Q, Kind::Q, Kind::R][t.pick(6)];
    let nlike = 2 + t.pick(3);
    for _ in 0..nlike {
        aim(&mut p, t, true, like, &mut keep);
    }
    let nmore = t.pick(4);
    for _ in 0..nmore {
        let k = [Kind::P, Kind::N, Kind::B, Kind::R, Kind::Q, Kind::K][t.pick(6)];
        aim(&mut p, t, true, k, &mut keep);
    }
    let ndef = t.pick(6);
    for _ in 0..ndef {
        let k = [Kind::P, Kind::N, Kind::B, Kind::R, Kind::Q, Kind::K][t.pick(6)];
        aim(&mut p, t, false, k, &mut keep);
    }
    // under-promoted extras need pawns removed: material check is in finish()
    if p.king_sq(true).is_none() && !place_king_safely(t, &mut p, true, &keep) {
        return None;
    }
    if p.king_sq(false).is_none() && !place_king_safely(t, &mut p, false, &keep) {
        return None;
    }
    let n = t.pick(8);
    sprinkle(t, &mut p, n, &keep);
    // side to move: usually white (the aiming side); if black is in check by construction it must move
    if p.attacked(p.king_sq(false).unwrap(), true) {
        p.white_to_move = false;
    }
    finish(t, p, "theme_multi")
}

/// Theme: material far outside normal play (2–9 queens a side, under-promoted pieces).
fn theme_queens(t: &mut Tape) -> Option<GenPos> {
    let mut p = Pos::empty();
    p.white_to_move = t.pick(2) == 0;
    if !place_king_safely(t, &mut p, true, &[]) || !place_king_safely(t, &mut p, false, &[]) {
        return None;
    }
    for white in [true, false] {
        // mostly queens; one time in three another kind, up to the most a game can produce (ten
        // rooks, bishops or knights: the two original ones and eight promoted pawns)
        let main = [Kind::Q, Kind::Q, Kind::Q, Kind::Q, Kind::R, Kind::B, Kind::N, Kind::R][t.pick(8)];
        let nq = if main != Kind::Q && t.pick(3) == 0 { 10 } else { t.pick(if main == Kind::Q { 10 } else { 11 }) };
        for _ in 0..nq {
            if let Some(s) = pick_empty(t, &p, &[]) {
                let pc = Pc::new(white, main);
                if material_ok_after(&p, pc) {
                    put(&mut p, s, pc);
                }
            }
        }
        let nx = t.pick(8);
        for _ in 0..nx {
            if let Some(s) = pick_empty(t, &p, &[]) {
                let pc = Pc::new(white, [Kind::N, Kind::B, Kind::R, Kind::P, Kind::R][t.pick(5)]);
                if material_ok_after(&p, pc) {
                    put(&mut p, s, pc);
                }
            }
        }
    }
    // fix the side to move if the construction left someone in check
    let wk = p.king_sq(true).unwrap();
    let bk = p.king_sq(false).unwrap();
    let w_in = p.attacked(wk, false);
    let b_in = p.attacked(bk, true);
    if w_in && b_in {
        return None;
    }
    if w_in {
        p.white_to_move = true;
    }
    if b_in {
        p.white_to_move = false;
    }
    finish(t, p, "theme_queens")
}

/// Theme: a slider whose lines are (almost) completely occupied - the "every relevant square is
/// occupied" end of the magic tables, which ordinary play never reaches. A rook, bishop or queen
/// stands on any square; every square of its lines is filled with probability 15/16; in a third of
/// the cases the enemy king stands right next to it on one of the lines (the check that only the
/// full-occupancy table entry reports).
fn theme_boxed(t: &mut Tape) -> Option<GenPos> {
    let mut p = Pos::empty();
    p.white_to_move = t.pick(2) == 0;
    let s = t.pick(64) as Sq;
    let white = t.pick(2) == 0;
    let kind = [Kind::R, Kind::Q, Kind::B, Kind::R][t.pick(4)];
    p.board[s as usize] = Some(Pc::new(white, kind));
    let dirs: Vec<(i32, i32)> = ALL_D
        .iter()
        .copied()
        .filter(|d| {
            let diag = d.0 != 0 && d.1 != 0;
            kind == Kind::Q || (kind == Kind::B) == diag
        })
        .collect();
    let mut line: Vec<Sq> = vec![];
    for d in &dirs {
        line.extend(ray(s, *d));
    }
    // kings first: the enemy king next to the slider on a line (he is then in check and to move),
    // or anywhere
    let adjacent: Vec<Sq> = dirs.iter().filter_map(|d| ray(s, *d).first().copied()).collect();
    let mut placed_enemy = false;
    if t.pick(3) == 0 && !adjacent.is_empty() {
        let k = adjacent[t.pick(adjacent.len())];
        p.board[k as usize] = Some(Pc::new(!white, Kind::K));
        p.white_to_move = !white;
        placed_enemy = true;
    }
    let sparse = t.pick(8) == 0;
    for q in &line {
        if p.board[*q as usize].is_some() || t.pick(if sparse { 2 } else { 16 }) == 0 {
            continue;
        }
        for _ in 0..4 {
            let pc = Pc::new(t.pick(2) == 0, EXTRA_KINDS[t.pick(EXTRA_KINDS.len())]);
            if can_hold(*q, pc) && material_ok_after(&p, pc) {
                put(&mut p, *q, pc);
                break;
            }
        }
    }
    if !placed_enemy && !place_king_safely(t, &mut p, !white, &[]) {
        return None;
    }
    if !place_king_safely(t, &mut p, white, &[]) {
        return None;
    }
    let extra = t.pick(6);
    sprinkle(t, &mut p, extra, &[]);
    let wk = p.king_sq(true)?;
    let bk = p.king_sq(false)?;
    let w_in = p.attacked(wk, false);
    let b_in = p.attacked(bk, true);
    if w_in && b_in {
        return None;
    }
    if w_in {
        p.white_to_move = true;
    }
    if b_in {
        p.white_to_move = false;
    }
    grant_rights(t, &mut p);
    finish(t, p, "theme_boxed")
}

/// Random placements from sparse (2-5 men) to dense.
fn theme_random(t: &mut Tape) -> Option<GenPos> {
    let mut p = Pos::empty();
    p.white_to_move = t.pick(2) == 0;
    if !place_king_safely(t, &mut p, true, &[]) || !place_king_safely(t, &mut p, false, &[]) {
        return None;
    }
    let n = if t.pick(3) == 0 { t.pick(4) } else { t.pick(30) };
    sprinkle(t, &mut p, n, &[]);
    let wk = p.king_sq(true).unwrap();
    let bk = p.king_sq(false).unwrap();
    let w_in = p.attacked(wk, false);
    let b_in = p.attacked(bk, true);
    if w_in && b_in {
        return None;
    }
    if w_in {
        p.white_to_move = true;
    }
    if b_in {
        p.white_to_move = false;
    }
    grant_rights(t, &mut p);
    finish(t, p, "theme_random")
}

/// Sparse minor-piece endings (for the dead-material rule and shuffling histories).
fn theme_sparse(t: &mut Tape) -> Option<GenPos> {
    let mut p = Pos::empty();
    p.white_to_move = t.pick(2) == 0;
    if !place_king_safely(t, &mut p, true, &[]) || !place_king_safely(t, &mut p, false, &[]) {
        return None;
    }
    let n = t.pick(4);
    for _ in 0..n {
        let k = [Kind::N, Kind::B, Kind::B, Kind::N, Kind::R, Kind::P, Kind::Q][t.pick(7)];
        if let Some(s) = pick_empty(t, &p, &[]) {
            put(&mut p, s, Pc::new(t.pick(2) == 0, k));
        }
    }
    let wk = p.king_sq(true).unwrap();
    let bk = p.king_sq(false).unwrap();
    let w_in = p.attacked(wk, false);
    let b_in = p.attacked(bk, true);
    if w_in && b_in {
        return None;
    }
    if w_in {
        p.white_to_move = true;
    }
    if b_in {
        p.white_to_move = false;
    }
    finish(t, p, "theme_sparse")
}

/// Theme: 28-32 men on alternating files of every rank (the longest possible FEN board fields:
/// "p1p1p1p1/..." is 71 characters), statically legal by construction: occupied squares all have the
/// same file parity within a side's half, so no slider, knight or pawn reaches a king.
fn theme_dense(t: &mut Tape) -> Option<GenPos> {
    let mut p = Pos::empty();
    let wo = t.pick(2) as i32;
    let bo = t.pick(2) as i32;
    let mut order = |t: &mut Tape| -> Vec<Kind> {
        let mut v = vec![Kind::K, Kind::Q, Kind::R, Kind::R, Kind::B, Kind::B, Kind::N, Kind::N];
        for i in (1..v.len()).rev() {
            let j = t.pick(i + 1);
            v.swap(i, j);
        }
        v
    };
    let w = order(t);
    let b = order(t);
    for i in 0..4 {
        p.board[sq(2 * i as i32 + wo, 0) as usize] = Some(Pc::new(true, w[i]));
        p.board[sq(2 * i as i32 + wo, 1) as usize] = Some(Pc::new(true, w[4 + i]));
        p.board[sq(2 * i as i32 + wo, 2) as usize] = Some(Pc::new(true, Kind::P));
        p.board[sq(2 * i as i32 + wo, 3) as usize] = Some(Pc::new(true, Kind::P));
        p.board[sq(2 * i as i32 + bo, 7) as usize] = Some(Pc::new(false, b[i]));
        p.board[sq(2 * i as i32 + bo, 6) as usize] = Some(Pc::new(false, b[4 + i]));
        p.board[sq(2 * i as i32 + bo, 5) as usize] = Some(Pc::new(false, Kind::P));
        p.board[sq(2 * i as i32 + bo, 4) as usize] = Some(Pc::new(false, Kind::P));
    }
    // sometimes a few men fewer (never a king)
    let remove = [0usize, 0, 0, 1, 2, 4][t.pick(6)];
    for _ in 0..remove {
        let s = t.pick(64);
        if let Some(pc) = p.board[s] {
            if pc.kind != Kind::K {
                p.board[s] = None;
            }
        }
    }
    p.white_to_move = t.pick(2) == 0;
    let wk = p.king_sq(true)?;
    let bk = p.king_sq(false)?;
    let (w_in, b_in) = (p.attacked(wk, false), p.attacked(bk, true));
    if w_in && b_in {
        return None;
    }
    if w_in {
        p.white_to_move = true;
    }
    if b_in {
        p.white_to_move = false;
    }
    grant_rights(t, &mut p);
    finish(t, p, "theme_dense")
}

/// Theme: very long exchanges on one square: up to eleven attackers a side (four knights, bishop
/// batteries on both diagonals, doubled rooks and a queen on the file), so that a capture sequence
/// can run past sixteen recaptures.
fn theme_long_exchange(t: &mut Tape) -> Option<GenPos> {
    let mut p = Pos::empty();
    p.white_to_move = true;
    let f = 2 + t.pick(4) as i32;
    let r = 3;
    let target = sq(f, r);
    let victim = [Kind::P, Kind::P, Kind::N, Kind::B, Kind::R][t.pick(5)];
    p.board[target as usize] = Some(Pc::new(false, victim));
    let row1 = [Kind::N, Kind::B, Kind::R, Kind::B, Kind::N];
    let row2 = [Kind::B, Kind::N, Kind::R, Kind::N, Kind::B];
    for (white, dir) in [(true, -1), (false, 1)] {
        for (i, df) in (-2..=2).enumerate() {
            if !on_board(f + df, r + dir) {
                continue;
            }
            if t.pick(7) != 0 {
                p.board[sq(f + df, r + dir) as usize] = Some(Pc::new(white, row1[i]));
            }
            if t.pick(7) != 0 {
                p.board[sq(f + df, r + 2 * dir) as usize] = Some(Pc::new(white, row2[i]));
            }
        }
        if t.pick(6) != 0 {
            p.board[sq(f, r + 3 * dir) as usize] = Some(Pc::new(white, Kind::Q));
        }
    }
    // kings in far corners, wherever they are safe
    let corners = [sq(7, 0), sq(0, 0), sq(7, 1), sq(0, 1)];
    let wk = corners.iter().copied().find(|s| p.board[*s as usize].is_none() && !p.attacked(*s, false))?;
    p.board[wk as usize] = Some(Pc::new(true, Kind::K));
    let corners_b = [sq(0, 7), sq(7, 7), sq(0, 6), sq(7, 6)];
    let bk = corners_b.iter().copied().find(|s| p.board[*s as usize].is_none() && !p.attacked(*s, true))?;
    p.board[bk as usize] = Some(Pc::new(false, Kind::K));
    finish(t, p, "theme_long_exchange")
}

/// Weighted chooser of the position source. `mix` selects the emphasis.
#[derive(Clone, Copy, PartialEq, Eq, Debug)]
pub enum Mix {
    /// all sources, themes weighted >= 50 %
    General,
    /// roots from the repository only (playable middlegames, for searches)
    Roots,
    /// sparse material (draw rules)
    Sparse,
    /// tactics: like pieces, queens, promotions (SAN / SEE / picker)
    Tactical,
    /// longest FEN board fields
    Dense,
    /// up to eleven attackers a side on one square
    LongExchange,
}

pub fn gen_root(t: &mut Tape, mix: Mix) -> Option<GenPos> {
    let r = roots();
    let root = |t: &mut Tape| -> Option<GenPos> {
        Some(GenPos {
            pos: r[t.pick(r.len())].clone(),
            src: "root",
        })
    };
    match mix {
        Mix::Roots => root(t),
        Mix::Dense => theme_dense(t),
        Mix::Sparse => match t.pick(4) {
            0 => root(t),
            _ => theme_sparse(t),
        },
        Mix::LongExchange => theme_long_exchange(t),
        Mix::Tactical => match t.pick(12) {
            0 => root(t),
            1 => theme_boxed(t),
            2 | 3 | 4 => theme_multi(t),
            5 => theme_queens(t),
            6 => theme_promo(t),
            7 => theme_pin(t),
            8 => theme_ep(t),
            9 => theme_castle(t),
            10 => theme_check(t),
            _ => theme_random(t),
        },
        Mix::General if t.pick(40) == 0 => theme_special_key(t),
        Mix::General => match t.pick(17) {
            16 => theme_corner_recapture(t),
            0 | 1 | 2 => root(t),
            3 => theme_boxed(t),
            4 | 5 => theme_pin(t),
            6 | 7 | 8 => theme_ep(t),
            9 => theme_check(t),
            10 => theme_castle(t),
            11 => theme_promo(t),
            12 => theme_multi(t),
            13 => theme_queens(t),
            14 => theme_random(t),
            _ => theme_sparse(t),
        },
    }
}

/// Weight of a move for walks: favours the rare move kinds the properties name.
pub fn move_weight(p: &Pos, m: &Mv) -> usize {
    let pc = p.board[m.from as usize].unwrap();
    let mut w = 2;
    if m.capture {
        w += 4;
    }
    if m.castle {
        w += 30;
    }
    if m.ep {
        w += 40;
    }
    if m.promo.is_some() {
        w += 8;
    }
    if pc.kind == Kind::P && (rank_of(m.to) - rank_of(m.from)).abs() == 2 {
        // double push next to an enemy pawn creates an e.p. target
        let f = file_of(m.to);
        let r = rank_of(m.to);
        for df in [-1, 1] {
            if on_board(f + df, r) && p.board[sq(f + df, r) as usize] == Some(Pc::new(!pc.white, Kind::P)) {
                w += 25;
            }
        }
    }
    if (pc.kind == Kind::K || pc.kind == Kind::R) && [0u8, 4, 7, 56, 60, 63].contains(&m.from) {
        w += 3;
    }
    if [0u8, 7, 56, 63].contains(&m.to) && m.capture {
        w += 10;
    }
    w
}

pub fn pick_weighted(t: &mut Tape, p: &Pos, legal: &[Mv]) -> usize {
    let ws: Vec<usize> = legal.iter().map(|m| move_weight(p, m)).collect();
    let total: usize = ws.iter().sum();
    let mut x = t.pick(total);
    for (i, w) in ws.iter().enumerate() {
        if x < *w {
            return i;
        }
        x -= w;
    }
    legal.len() - 1
}

/// A root followed by a walk of up to `max_plies` reference-legal moves; every position on the way.
pub fn gen_walk(t: &mut Tape, mix: Mix, max_plies: usize) -> Vec<GenPos> {
    let Some(root) = gen_root(t, mix) else { return vec![] };
    let src = root.src;
    let mut out = vec![root];
    let plies = t.pick(max_plies + 1);
    for _ in 0..plies {
        let cur = &out.last().unwrap().pos;
        let legal = cur.legal_moves();
        if legal.is_empty() {
            break;
        }
        let i = if t.pick(4) == 0 {
            t.pick(legal.len())
        } else {
            pick_weighted(t, cur, &legal)
        };
        let next = cur.make(&legal[i]);
        out.push(GenPos { pos: next, src });
    }
    out
}

/// Classification used by the evidence histograms.
pub fn classify(p: &Pos) -> Vec<&'static str> {
    let mut c = vec![];
    let checkers = p.checkers();
    match checkers.len() {
        0 => {}
        1 => c.push("check"),
        _ => c.push("double_check"),
    }
    let us = p.white_to_move;
    let pseudo = p.pseudo_moves();
    let legal = p.legal_moves();
    if legal.is_empty() {
        c.push(if checkers.is_empty() { "stalemate" } else { "checkmate" });
    }
    // pinned: own non-king piece with a pseudo-legal move that is not legal, excluding king moves
    let k = p.king_sq(us).unwrap();
    if pseudo.iter().any(|m| m.from != k && !m.ep && !legal.contains(m)) && checkers.is_empty() {
        c.push("pinned_piece");
    }
    if pseudo.iter().any(|m| m.from != k && !m.ep && !legal.contains(m))
        && legal.iter().any(|m| {
            m.from != k
                && pseudo
                    .iter()
                    .any(|q| q.from == m.from && !q.ep && !legal.contains(q))
        })
        && checkers.is_empty()
    {
        c.push("pinned_piece_moves_on_ray");
    }
    if p.ep.is_some() {
        c.push("ep_target");
        let ep_pseudo: Vec<&Mv> = pseudo.iter().filter(|m| m.ep).collect();
        if !ep_pseudo.is_empty() {
            c.push("ep_capturer");
            if ep_pseudo.iter().any(|m| legal.contains(m)) {
                c.push("ep_legal");
            }
            if ep_pseudo.iter().any(|m| !legal.contains(m)) {
                c.push("ep_illegal");
            }
            if !checkers.is_empty() {
                c.push("ep_while_in_check");
            }
        }
    }
    let (ki, qi) = if us { (WK, WQ) } else { (BK, BQ) };
    if p.castle[ki] || p.castle[qi] {
        c.push("castle_right");
        let n = legal.iter().filter(|m| m.castle).count();
        let rights = usize::from(p.castle[ki]) + usize::from(p.castle[qi]);
        if n > 0 {
            c.push("castle_legal");
        }
        if n < rights {
            c.push("castle_denied");
        }
    }
    if legal.iter().any(|m| m.promo.is_some()) {
        c.push("promotion");
        if !checkers.is_empty() {
            c.push("promotion_in_check");
        }
    }
    c.extend(material_classes(p));
    c
}

/// Cheap classes about material and fully blocked slider lines (shared by several checks).
pub fn material_classes(p: &Pos) -> Vec<&'static str> {
    let mut c = vec![];
    for w in [true, false] {
        if [Kind::N, Kind::B, Kind::R].iter().any(|k| p.count(w, *k) >= 10) || p.count(w, Kind::Q) >= 9 {
            c.push("most_men_of_one_kind_a_game_can_produce");
            break;
        }
    }
    // a rook / queen (bishop / queen) all of whose line squares are occupied
    'outer: for s in 0..64u8 {
        let Some(pc) = p.board[s as usize] else { continue };
        for (kinds, diag) in [([Kind::R, Kind::Q], false), ([Kind::B, Kind::Q], true)] {
            if !kinds.contains(&pc.kind) {
                continue;
            }
            let mut n = 0;
            let full = ALL_D.iter().filter(|d| (d.0 != 0 && d.1 != 0) == diag).all(|d| {
                ray(s, *d).iter().all(|q| {
                    n += 1;
                    p.board[*q as usize].is_some()
                })
            });
            if full && n >= 9 {
                c.push("slider_with_every_line_square_occupied");
                break 'outer;
            }
        }
    }
    c
}
