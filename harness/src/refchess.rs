//! Independent reference implementation of the rules of chess.
//!
//! Shares nothing with the engine: 8x8 mailbox, attack test by walking rays and offsets,
//! pseudo-legal generation + make + "own king attacked?" filter. Deliberately simple and slow.
//! Squares: 0 = a1, 7 = h1, 56 = a8, 63 = h8 (file = sq % 8, rank = sq / 8).

use std::fmt::Write as _;

pub type Sq = u8;

#[derive(Clone, Copy, PartialEq, Eq, Hash, Debug, PartialOrd, Ord)]
pub enum Kind {
    P,
    N,
    B,
    R,
    Q,
    K,
}

impl Kind {
    pub const ALL: [Kind; 6] = [Kind::P, Kind::N, Kind::B, Kind::R, Kind::Q, Kind::K];
    pub fn idx(self) -> usize {
        self as usize
    }
    pub fn upper(self) -> char {
        match self {
            Kind::P => 'P',
            Kind::N => 'N',
            Kind::B => 'B',
            Kind::R => 'R',
            Kind::Q => 'Q',
            Kind::K => 'K',
        }
    }
    pub fn from_upper(c: char) -> Option<Kind> {
        Some(match c {
            'P' => Kind::P,
            'N' => Kind::N,
            'B' => Kind::B,
            'R' => Kind::R,
            'Q' => Kind::Q,
            'K' => Kind::K,
            _ => return None,
        })
    }
}

#[derive(Clone, Copy, PartialEq, Eq, Hash, Debug)]
pub struct Pc {
    pub white: bool,
    pub kind: Kind,
}

impl Pc {
    pub fn new(white: bool, kind: Kind) -> Pc {
        Pc { white, kind }
    }
    pub fn fen_char(self) -> char {
        let c = self.kind.upper();
        if self.white {
            c
        } else {
            c.to_ascii_lowercase()
        }
    }
    pub fn from_fen_char(c: char) -> Option<Pc> {
        let k = Kind::from_upper(c.to_ascii_uppercase())?;
        Some(Pc {
            white: c.is_ascii_uppercase(),
            kind: k,
        })
    }
}

/// castle rights index: 0 = K (white king side), 1 = Q, 2 = k, 3 = q
pub const WK: usize = 0;
pub const WQ: usize = 1;
pub const BK: usize = 2;
pub const BQ: usize = 3;

#[derive(Clone, PartialEq, Eq, Hash, Debug)]
pub struct Pos {
    pub board: [Option<Pc>; 64],
    pub white_to_move: bool,
    pub castle: [bool; 4],
    pub ep: Option<Sq>,
    pub halfmove: u32,
    pub fullmove: u32,
}

#[derive(Clone, Copy, PartialEq, Eq, Hash, Debug, PartialOrd, Ord)]
pub struct Mv {
    pub from: Sq,
    pub to: Sq,
    pub promo: Option<Kind>,
    pub capture: bool,
    pub ep: bool,
    pub castle: bool,
}

impl Mv {
    pub fn uci(&self) -> String {
        let mut s = String::new();
        s.push_str(&sq_name(self.from));
        s.push_str(&sq_name(self.to));
        if let Some(p) = self.promo {
            s.push(p.upper().to_ascii_lowercase());
        }
        s
    }
    /// (from, to, promo index) key used to compare with engine moves
    pub fn key(&self) -> (u8, u8, u8) {
        (self.from, self.to, self.promo.map_or(0, |k| k.idx() as u8))
    }
}

pub fn file_of(s: Sq) -> i32 {
    (s % 8) as i32
}
pub fn rank_of(s: Sq) -> i32 {
    (s / 8) as i32
}
pub fn sq(file: i32, rank: i32) -> Sq {
    debug_assert!((0..8).contains(&file) && (0..8).contains(&rank));
    (rank * 8 + file) as Sq
}
pub fn on_board(file: i32, rank: i32) -> bool {
    (0..8).contains(&file) && (0..8).contains(&rank)
}
pub fn sq_name(s: Sq) -> String {
    let mut t = String::new();
    t.push((b'a' + (s % 8)) as char);
    t.push((b'1' + (s / 8)) as char);
    t
}
pub fn parse_sq(t: &str) -> Option<Sq> {
    let b = t.as_bytes();
    if b.len() != 2 || !(b'a'..=b'h').contains(&b[0]) || !(b'1'..=b'8').contains(&b[1]) {
        return None;
    }
    Some((b[1] - b'1') * 8 + (b[0] - b'a'))
}

pub const KNIGHT_D: [(i32, i32); 8] = [
    (1, 2),
    (2, 1),
    (2, -1),
    (1, -2),
    (-1, -2),
    (-2, -1),
    (-2, 1),
    (-1, 2),
];
pub const KING_D: [(i32, i32); 8] = [
    (1, 0),
    (1, 1),
    (0, 1),
    (-1, 1),
    (-1, 0),
    (-1, -1),
    (0, -1),
    (1, -1),
];
pub const ROOK_D: [(i32, i32); 4] = [(1, 0), (0, 1), (-1, 0), (0, -1)];
pub const BISHOP_D: [(i32, i32); 4] = [(1, 1), (-1, 1), (-1, -1), (1, -1)];

pub const START_FEN: &str = "rnbqkbnr/pppppppp/8/8/8/8/PPPPPPPP/RNBQKBNR w KQkq - 0 1";

impl Pos {
    pub fn empty() -> Pos {
        Pos {
            board: [None; 64],
            white_to_move: true,
            castle: [false; 4],
            ep: None,
            halfmove: 0,
            fullmove: 1,
        }
    }

    pub fn start() -> Pos {
        Pos::from_fen(START_FEN).unwrap()
    }

    pub fn at(&self, s: Sq) -> Option<Pc> {
        self.board[s as usize]
    }

    pub fn king_sq(&self, white: bool) -> Option<Sq> {
        (0..64u8).find(|&s| self.board[s as usize] == Some(Pc::new(white, Kind::K)))
    }

    pub fn count(&self, white: bool, kind: Kind) -> usize {
        self.board
            .iter()
            .filter(|p| **p == Some(Pc::new(white, kind)))
            .count()
    }

    pub fn men(&self) -> usize {
        self.board.iter().filter(|p| p.is_some()).count()
    }

    /// Is square `s` attacked by a piece of colour `by_white` (pins ignored, as the rules say)?
    pub fn attacked(&self, s: Sq, by_white: bool) -> bool {
        self.attacked_on(&self.board, s, by_white)
    }

    pub fn attacked_on(&self, board: &[Option<Pc>; 64], s: Sq, by_white: bool) -> bool {
        !attackers_on(board, s, by_white).is_empty()
    }

    pub fn in_check(&self) -> bool {
        match self.king_sq(self.white_to_move) {
            Some(k) => self.attacked(k, !self.white_to_move),
            None => false,
        }
    }

    pub fn checkers(&self) -> Vec<Sq> {
        match self.king_sq(self.white_to_move) {
            Some(k) => attackers_on(&self.board, k, !self.white_to_move),
            None => vec![],
        }
    }

    /// Pseudo-legal moves (own king may be left in check), castling included with all its own
    /// conditions except that the result is filtered by `legal_moves` like every other move.
    pub fn pseudo_moves(&self) -> Vec<Mv> {
        let us = self.white_to_move;
        let mut out = Vec::with_capacity(64);
        for from in 0..64u8 {
            let Some(pc) = self.board[from as usize] else {
                continue;
            };
            if pc.white != us {
                continue;
            }
            let f = file_of(from);
            let r = rank_of(from);
            match pc.kind {
                Kind::P => {
                    let dir = if us { 1 } else { -1 };
                    let start_rank = if us { 1 } else { 6 };
                    let promo_from_rank = if us { 6 } else { 1 };
                    let push = |out: &mut Vec<Mv>, to: Sq, capture: bool, ep: bool| {
                        if r == promo_from_rank {
                            for k in [Kind::Q, Kind::R, Kind::B, Kind::N] {
                                out.push(Mv {
                                    from,
                                    to,
                                    promo: Some(k),
                                    capture,
                                    ep: false,
                                    castle: false,
                                });
                            }
                        } else {
                            out.push(Mv {
                                from,
                                to,
                                promo: None,
                                capture,
                                ep,
                                castle: false,
                            });
                        }
                    };
                    if on_board(f, r + dir) {
                        let one = sq(f, r + dir);
                        if self.board[one as usize].is_none() {
                            push(&mut out, one, false, false);
                            if r == start_rank {
                                let two = sq(f, r + 2 * dir);
                                if self.board[two as usize].is_none() {
                                    push(&mut out, two, false, false);
                                }
                            }
                        }
                    }
                    for df in [-1, 1] {
                        if !on_board(f + df, r + dir) {
                            continue;
                        }
                        let to = sq(f + df, r + dir);
                        match self.board[to as usize] {
                            Some(t) if t.white != us => push(&mut out, to, true, false),
                            None if self.ep == Some(to) => {
                                // the pawn to be captured must really stand there
                                let victim = sq(f + df, r);
                                if self.board[victim as usize] == Some(Pc::new(!us, Kind::P)) {
                                    push(&mut out, to, true, true);
                                }
                            }
                            _ => {}
                        }
                    }
                }
                Kind::N | Kind::K => {
                    let ds = if pc.kind == Kind::N { &KNIGHT_D } else { &KING_D };
                    for (df, dr) in ds.iter() {
                        if !on_board(f + df, r + dr) {
                            continue;
                        }
                        let to = sq(f + df, r + dr);
                        match self.board[to as usize] {
                            Some(t) if t.white == us => {}
                            Some(_) => out.push(Mv {
                                from,
                                to,
                                promo: None,
                                capture: true,
                                ep: false,
                                castle: false,
                            }),
                            None => out.push(Mv {
                                from,
                                to,
                                promo: None,
                                capture: false,
                                ep: false,
                                castle: false,
                            }),
                        }
                    }
                }
                Kind::B | Kind::R | Kind::Q => {
                    let mut dirs: Vec<(i32, i32)> = vec![];
                    if pc.kind != Kind::B {
                        dirs.extend_from_slice(&ROOK_D);
                    }
                    if pc.kind != Kind::R {
                        dirs.extend_from_slice(&BISHOP_D);
                    }
                    for (df, dr) in dirs {
                        let (mut cf, mut cr) = (f + df, r + dr);
                        while on_board(cf, cr) {
                            let to = sq(cf, cr);
                            match self.board[to as usize] {
                                Some(t) => {
                                    if t.white != us {
                                        out.push(Mv {
                                            from,
                                            to,
                                            promo: None,
                                            capture: true,
                                            ep: false,
                                            castle: false,
                                        });
                                    }
                                    break;
                                }
                                None => out.push(Mv {
                                    from,
                                    to,
                                    promo: None,
                                    capture: false,
                                    ep: false,
                                    castle: false,
                                }),
                            }
                            cf += df;
                            cr += dr;
                        }
                    }
                }
            }
        }
        // castling (FIDE 3.8.2): right present, king and rook at home, squares between empty,
        // king not in check, does not pass through or land on an attacked square
        let home_rank = if us { 0 } else { 7 };
        let ksq = sq(4, home_rank);
        if self.board[ksq as usize] == Some(Pc::new(us, Kind::K)) {
            let (ki, qi) = if us { (WK, WQ) } else { (BK, BQ) };
            if self.castle[ki]
                && self.board[sq(7, home_rank) as usize] == Some(Pc::new(us, Kind::R))
                && self.board[sq(5, home_rank) as usize].is_none()
                && self.board[sq(6, home_rank) as usize].is_none()
                && !self.attacked(ksq, !us)
                && !self.attacked(sq(5, home_rank), !us)
                && !self.attacked(sq(6, home_rank), !us)
            {
                out.push(Mv {
                    from: ksq,
                    to: sq(6, home_rank),
                    promo: None,
                    capture: false,
                    ep: false,
                    castle: true,
                });
            }
            if self.castle[qi]
                && self.board[sq(0, home_rank) as usize] == Some(Pc::new(us, Kind::R))
                && self.board[sq(1, home_rank) as usize].is_none()
                && self.board[sq(2, home_rank) as usize].is_none()
                && self.board[sq(3, home_rank) as usize].is_none()
                && !self.attacked(ksq, !us)
                && !self.attacked(sq(3, home_rank), !us)
                && !self.attacked(sq(2, home_rank), !us)
            {
                out.push(Mv {
                    from: ksq,
                    to: sq(2, home_rank),
                    promo: None,
                    capture: false,
                    ep: false,
                    castle: true,
                });
            }
        }
        out
    }

    /// Apply the board edit of a move (no legality test).
    fn apply_board(&self, m: &Mv) -> [Option<Pc>; 64] {
        let mut b = self.board;
        let pc = b[m.from as usize].expect("mover");
        b[m.from as usize] = None;
        if m.ep {
            let victim = sq(file_of(m.to), rank_of(m.from));
            b[victim as usize] = None;
        }
        b[m.to as usize] = Some(match m.promo {
            Some(k) => Pc::new(pc.white, k),
            None => pc,
        });
        if m.castle {
            let rank = rank_of(m.from);
            if file_of(m.to) == 6 {
                b[sq(5, rank) as usize] = b[sq(7, rank) as usize].take();
            } else {
                b[sq(3, rank) as usize] = b[sq(0, rank) as usize].take();
            }
        }
        b
    }

    pub fn legal_moves(&self) -> Vec<Mv> {
        let us = self.white_to_move;
        self.pseudo_moves()
            .into_iter()
            .filter(|m| {
                let b = self.apply_board(m);
                let k = (0..64u8)
                    .find(|&s| b[s as usize] == Some(Pc::new(us, Kind::K)))
                    .expect("king");
                attackers_on(&b, k, !us).is_empty()
            })
            .collect()
    }

    /// The successor position under the rules. `record_ep_always = false` uses the engine's
    /// documented convention: the en-passant target is recorded only when an enemy pawn stands
    /// beside the double-pushed pawn.
    pub fn make(&self, m: &Mv) -> Pos {
        let us = self.white_to_move;
        let pc = self.board[m.from as usize].expect("mover");
        let mut n = self.clone();
        n.board = self.apply_board(m);
        n.white_to_move = !us;
        // rights
        let touch = |n: &mut Pos, s: Sq| match s {
            4 => {
                n.castle[WK] = false;
                n.castle[WQ] = false;
            }
            7 => n.castle[WK] = false,
            0 => n.castle[WQ] = false,
            60 => {
                n.castle[BK] = false;
                n.castle[BQ] = false;
            }
            63 => n.castle[BK] = false,
            56 => n.castle[BQ] = false,
            _ => {}
        };
        touch(&mut n, m.from);
        touch(&mut n, m.to);
        // en passant target
        n.ep = None;
        if pc.kind == Kind::P && (rank_of(m.to) - rank_of(m.from)).abs() == 2 {
            let f = file_of(m.to);
            let r = rank_of(m.to);
            let mut beside = false;
            for df in [-1, 1] {
                if on_board(f + df, r) && n.board[sq(f + df, r) as usize] == Some(Pc::new(!us, Kind::P)) {
                    beside = true;
                }
            }
            if beside {
                n.ep = Some(sq(f, (rank_of(m.to) + rank_of(m.from)) / 2));
            }
        }
        if pc.kind == Kind::P || m.capture {
            n.halfmove = 0;
        } else {
            n.halfmove = self.halfmove + 1;
        }
        if !us {
            n.fullmove = self.fullmove + 1;
        }
        n
    }

    /// A search-style "pass": side changes, en-passant target is dropped, clocks as the engine does
    /// (halfmove clock unchanged). Used only for histories with null moves.
    pub fn make_null(&self) -> Pos {
        let mut n = self.clone();
        n.white_to_move = !self.white_to_move;
        n.ep = None;
        if !self.white_to_move {
            n.fullmove += 1;
        }
        n
    }

    pub fn is_checkmate(&self) -> bool {
        self.in_check() && self.legal_moves().is_empty()
    }
    pub fn is_stalemate(&self) -> bool {
        !self.in_check() && self.legal_moves().is_empty()
    }

    /// position identity for repetition purposes
    pub fn identity(&self) -> ([Option<Pc>; 64], bool, [bool; 4], Option<Sq>) {
        (self.board, self.white_to_move, self.castle, self.ep)
    }

    pub fn plies(&self) -> u32 {
        (self.fullmove - 1) * 2 + u32::from(!self.white_to_move)
    }

    pub fn to_fen(&self) -> String {
        let mut s = String::new();
        for r in (0..8).rev() {
            let mut empty = 0;
            for f in 0..8 {
                match self.board[sq(f, r) as usize] {
                    Some(p) => {
                        if empty > 0 {
                            write!(s, "{empty}").unwrap();
                            empty = 0;
                        }
                        s.push(p.fen_char());
                    }
                    None => empty += 1,
                }
            }
            if empty > 0 {
                write!(s, "{empty}").unwrap();
            }
            if r > 0 {
                s.push('/');
            }
        }
        s.push(' ');
        s.push(if self.white_to_move { 'w' } else { 'b' });
        s.push(' ');
        if self.castle.iter().any(|c| *c) {
            for (i, c) in ['K', 'Q', 'k', 'q'].iter().enumerate() {
                if self.castle[i] {
                    s.push(*c);
                }
            }
        } else {
            s.push('-');
        }
        s.push(' ');
        match self.ep {
            Some(e) => s.push_str(&sq_name(e)),
            None => s.push('-'),
        }
        write!(s, " {} {}", self.halfmove, self.fullmove).unwrap();
        s
    }

    /// Strict reader for canonical six-field FEN (used for roots and self-tests only).
    pub fn from_fen(fen: &str) -> Result<Pos, String> {
        let parts: Vec<&str> = fen.split(' ').collect();
        if parts.len() != 6 && parts.len() != 4 {
            return Err(format!("field count {}", parts.len()));
        }
        let mut p = Pos::empty();
        let ranks: Vec<&str> = parts[0].split('/').collect();
        if ranks.len() != 8 {
            return Err("rank count".into());
        }
        for (i, rk) in ranks.iter().enumerate() {
            let r = 7 - i as i32;
            let mut f = 0;
            for c in rk.chars() {
                if let Some(d) = c.to_digit(10) {
                    if !(1..=8).contains(&d) {
                        return Err("digit".into());
                    }
                    f += d as i32;
                } else {
                    let pc = Pc::from_fen_char(c).ok_or("piece char")?;
                    if f > 7 {
                        return Err("rank too wide".into());
                    }
                    p.board[sq(f, r) as usize] = Some(pc);
                    f += 1;
                }
            }
            if f != 8 {
                return Err("rank width".into());
            }
        }
        p.white_to_move = match parts[1] {
            "w" => true,
            "b" => false,
            _ => return Err("side".into()),
        };
        if parts[2] != "-" {
            for c in parts[2].chars() {
                match c {
                    'K' => p.castle[WK] = true,
                    'Q' => p.castle[WQ] = true,
                    'k' => p.castle[BK] = true,
                    'q' => p.castle[BQ] = true,
                    _ => return Err("castle".into()),
                }
            }
        }
        p.ep = if parts[3] == "-" {
            None
        } else {
            Some(parse_sq(parts[3]).ok_or("ep")?)
        };
        if parts.len() == 6 {
            p.halfmove = parts[4].parse().map_err(|_| "halfmove")?;
            p.fullmove = parts[5].parse().map_err(|_| "fullmove")?;
        }
        Ok(p)
    }

    /// Static legality as the properties define it, plus the two implicit preconditions
    /// (promotion-feasible material, en-passant state reachable in one move).
    pub fn validate(&self) -> Result<(), &'static str> {
        if self.count(true, Kind::K) != 1 || self.count(false, Kind::K) != 1 {
            return Err("kings");
        }
        for f in 0..8 {
            for r in [0, 7] {
                if let Some(p) = self.board[sq(f, r) as usize] {
                    if p.kind == Kind::P {
                        return Err("pawn on back rank");
                    }
                }
            }
        }
        // side not to move must not be in check
        let them = !self.white_to_move;
        if self.attacked(self.king_sq(them).unwrap(), self.white_to_move) {
            return Err("side not to move in check");
        }
        // castling rights consistent with placement
        let chk = |i: usize, k: Sq, r: Sq, white: bool| -> bool {
            !self.castle[i]
                || (self.board[k as usize] == Some(Pc::new(white, Kind::K))
                    && self.board[r as usize] == Some(Pc::new(white, Kind::R)))
        };
        if !(chk(WK, 4, 7, true) && chk(WQ, 4, 0, true) && chk(BK, 60, 63, false) && chk(BQ, 60, 56, false)) {
            return Err("castle rights");
        }
        // material reachable by promotion
        for white in [true, false] {
            let pawns = self.count(white, Kind::P) as i32;
            let extra = (self.count(white, Kind::N) as i32 - 2).max(0)
                + (self.count(white, Kind::B) as i32 - 2).max(0)
                + (self.count(white, Kind::R) as i32 - 2).max(0)
                + (self.count(white, Kind::Q) as i32 - 1).max(0);
            if pawns + extra > 8 {
                return Err("material");
            }
        }
        // en passant target consistent and reachable in one move
        if let Some(e) = self.ep {
            let us = self.white_to_move;
            let (tr, pr, fr) = if us { (5, 4, 6) } else { (2, 3, 1) };
            if rank_of(e) != tr {
                return Err("ep rank");
            }
            let f = file_of(e);
            if self.board[e as usize].is_some() || self.board[sq(f, fr) as usize].is_some() {
                return Err("ep squares not empty");
            }
            if self.board[sq(f, pr) as usize] != Some(Pc::new(!us, Kind::P)) {
                return Err("ep pawn missing");
            }
            // un-push: the side that pushed was to move and the other king was not in check then
            let mut b = self.board;
            b[sq(f, pr) as usize] = None;
            b[sq(f, fr) as usize] = Some(Pc::new(!us, Kind::P));
            let k = self.king_sq(us).unwrap();
            if !attackers_on(&b, k, !us).is_empty() {
                return Err("ep unreachable (mover was in check before the push)");
            }
        }
        Ok(())
    }

    /// Does an own pawn stand beside the double-pushed pawn (the engine's recording convention)?
    pub fn ep_has_neighbour(&self) -> bool {
        let Some(e) = self.ep else { return false };
        let us = self.white_to_move;
        let pr = if us { 4 } else { 3 };
        let f = file_of(e);
        [-1, 1].iter().any(|df| {
            on_board(f + df, pr) && self.board[sq(f + df, pr) as usize] == Some(Pc::new(us, Kind::P))
        })
    }

    /// Colour swap + rank flip.
    pub fn mirror(&self) -> Pos {
        let mut n = Pos::empty();
        for s in 0..64u8 {
            if let Some(p) = self.board[s as usize] {
                n.board[(s ^ 56) as usize] = Some(Pc::new(!p.white, p.kind));
            }
        }
        n.white_to_move = !self.white_to_move;
        n.castle = [self.castle[BK], self.castle[BQ], self.castle[WK], self.castle[WQ]];
        n.ep = self.ep.map(|e| e ^ 56);
        n.halfmove = self.halfmove;
        n.fullmove = self.fullmove;
        n
    }

    /// Standard algebraic notation: minimal disambiguation (file, else rank, else both), `x`, `=X`,
    /// `O-O`/`O-O-O`, `+` for check and `#` for mate. Returns (body, suffix).
    pub fn san_parts(&self, m: &Mv, legal: &[Mv]) -> (String, &'static str) {
        let pc = self.board[m.from as usize].expect("mover");
        let mut s = String::new();
        if m.castle {
            s.push_str(if file_of(m.to) == 6 { "O-O" } else { "O-O-O" });
        } else {
            if pc.kind == Kind::P {
                if m.capture {
                    s.push((b'a' + m.from % 8) as char);
                }
            } else {
                s.push(pc.kind.upper());
                let others: Vec<&Mv> = legal
                    .iter()
                    .filter(|o| {
                        o.to == m.to
                            && o.from != m.from
                            && self.board[o.from as usize].map(|p| p.kind) == Some(pc.kind)
                    })
                    .collect();
                if !others.is_empty() {
                    let same_file = others.iter().any(|o| file_of(o.from) == file_of(m.from));
                    let same_rank = others.iter().any(|o| rank_of(o.from) == rank_of(m.from));
                    if !same_file {
                        s.push((b'a' + m.from % 8) as char);
                    } else if !same_rank {
                        s.push((b'1' + m.from / 8) as char);
                    } else {
                        s.push_str(&sq_name(m.from));
                    }
                }
            }
            if m.capture {
                s.push('x');
            }
            s.push_str(&sq_name(m.to));
            if let Some(k) = m.promo {
                s.push('=');
                s.push(k.upper());
            }
        }
        let after = self.make(m);
        let suffix = if after.in_check() {
            if after.legal_moves().is_empty() {
                "#"
            } else {
                "+"
            }
        } else {
            ""
        };
        (s, suffix)
    }
}

/// Squares from which a piece of colour `by_white` attacks `s` on `board`.
pub fn attackers_on(board: &[Option<Pc>; 64], s: Sq, by_white: bool) -> Vec<Sq> {
    let mut out = vec![];
    let f = file_of(s);
    let r = rank_of(s);
    // pawns: a white pawn on (f±1, r-1) attacks s
    let pr = if by_white { r - 1 } else { r + 1 };
    for df in [-1, 1] {
        if on_board(f + df, pr) && board[sq(f + df, pr) as usize] == Some(Pc::new(by_white, Kind::P)) {
            out.push(sq(f + df, pr));
        }
    }
    for (df, dr) in KNIGHT_D {
        if on_board(f + df, r + dr) && board[sq(f + df, r + dr) as usize] == Some(Pc::new(by_white, Kind::N)) {
            out.push(sq(f + df, r + dr));
        }
    }
    for (df, dr) in KING_D {
        if on_board(f + df, r + dr) && board[sq(f + df, r + dr) as usize] == Some(Pc::new(by_white, Kind::K)) {
            out.push(sq(f + df, r + dr));
        }
    }
    for (dirs, a, b) in [(&ROOK_D, Kind::R, Kind::Q), (&BISHOP_D, Kind::B, Kind::Q)] {
        for (df, dr) in dirs.iter() {
            let (mut cf, mut cr) = (f + df, r + dr);
            while on_board(cf, cr) {
                if let Some(p) = board[sq(cf, cr) as usize] {
                    if p.white == by_white && (p.kind == a || p.kind == b) {
                        out.push(sq(cf, cr));
                    }
                    break;
                }
                cf += df;
                cr += dr;
            }
        }
    }
    out
}

pub fn perft(p: &Pos, depth: u32) -> u64 {
    if depth == 0 {
        return 1;
    }
    let ms = p.legal_moves();
    if depth == 1 {
        return ms.len() as u64;
    }
    ms.iter().map(|m| perft(&p.make(m), depth - 1)).sum()
}

/// Self test against published perft totals (chessprogramming.org "Perft Results") and FEN round trips.
pub fn self_test(deep: bool) -> Result<(), String> {
    let table: &[(&str, &[u64])] = &[
        (START_FEN, &[20, 400, 8902, 197_281]),
        (
            "r3k2r/p1ppqpb1/bn2pnp1/3PN3/1p2P3/2N2Q1p/PPPBBPPP/R3K2R w KQkq - 0 1",
            &[48, 2039, 97_862],
        ),
        ("8/2p5/3p4/KP5r/1R3p1k/8/4P1P1/8 w - - 0 1", &[14, 191, 2812, 43_238]),
        (
            "r3k2r/Pppp1ppp/1b3nbN/nP6/BBP1P3/q4N2/Pp1P2PP/R2Q1RK1 w kq - 0 1",
            &[6, 264, 9467],
        ),
        (
            "rnbq1k1r/pp1Pbppp/2p5/8/2B5/8/PPP1NnPP/RNBQK2R w KQ - 1 8",
            &[44, 1486, 62_379],
        ),
        (
            "r4rk1/1pp1qppp/p1np1n2/2b1p1B1/2B1P1b1/P1NP1N2/1PP1QPPP/R4RK1 w - - 0 10",
            &[46, 2079, 89_890],
        ),
    ];
    for (fen, totals) in table {
        let p = Pos::from_fen(fen)?;
        if p.to_fen() != *fen {
            return Err(format!("refchess FEN round trip {fen} -> {}", p.to_fen()));
        }
        p.validate().map_err(|e| format!("refchess validate {fen}: {e}"))?;
        let n = if deep { totals.len() } else { totals.len().min(3) };
        for (d, want) in totals.iter().take(n).enumerate() {
            let got = perft(&p, d as u32 + 1);
            if got != *want {
                return Err(format!("refchess perft {fen} depth {} = {got}, published {want}", d + 1));
            }
        }
    }
    // mirror is an involution and preserves move counts
    for (fen, _) in table {
        let p = Pos::from_fen(fen)?;
        if p.mirror().mirror() != p {
            return Err("mirror not involutive".into());
        }
        if p.mirror().legal_moves().len() != p.legal_moves().len() {
            return Err("mirror changes move count".into());
        }
    }
    // SAN spot checks (disambiguation by rank, and by both)
    let p = Pos::from_fen("4k3/8/8/R7/8/8/8/R3K3 w - - 0 1").unwrap();
    let legal = p.legal_moves();
    let find = |legal: &[Mv], from: &str, to: &str| {
        *legal
            .iter()
            .find(|m| m.from == parse_sq(from).unwrap() && m.to == parse_sq(to).unwrap())
            .unwrap()
    };
    let (s, _) = p.san_parts(&find(&legal, "a1", "a3"), &legal);
    if s != "R1a3" {
        return Err(format!("san R1a3 got {s}"));
    }
    let p = Pos::from_fen("K7/8/2k5/8/4Q2Q/8/8/7Q w - - 0 1").unwrap();
    let legal = p.legal_moves();
    let (s, _) = p.san_parts(&find(&legal, "h4", "e1"), &legal);
    if s != "Qh4e1" {
        return Err(format!("san Qh4e1 got {s}"));
    }
    let (s, _) = p.san_parts(&find(&legal, "e4", "e1"), &legal);
    if s != "Qee1" {
        return Err(format!("san Qee1 got {s}"));
    }
    Ok(())
}
