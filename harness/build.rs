// Pulls the engine's own sources (from $TCHERAN_SRC, default /repo/src) into this crate by #[path],
// so every check is compiled from /repo's current working tree.
use std::{env, fs, path::PathBuf};

fn main() {
    let src = env::var("TCHERAN_SRC").unwrap_or_else(|_| "/repo/src".to_string());
    println!("cargo:rerun-if-env-changed=TCHERAN_SRC");
    println!("cargo:rerun-if-changed={src}");
    println!("cargo:rerun-if-changed={src}/engine/tablebases/fathom/src");
    let out = PathBuf::from(env::var("OUT_DIR").unwrap());
    fs::write(
        out.join("roots.rs"),
        format!(
            "#[path = \"{src}/chess/mod.rs\"] pub mod chess;\n#[path = \"{src}/engine/mod.rs\"] pub mod engine;\n"
        ),
    )
    .unwrap();
    cc::Build::new()
        .include(format!("{src}/engine/tablebases/fathom/src"))
        .file(format!("{src}/engine/tablebases/fathom/src/tbprobe.c"))
        .warnings(false)
        .compile("fathom");
    println!("cargo:rustc-cfg=jgilchrist_tcheran_verif");
    // The occupied-slot counter of the transposition table is a public field today and C19 reads it
    // for an exact comparison; if a change to the engine hides or removes it, the harness must still
    // build (the check then relies on occupancy() alone), so its presence is probed here.
    println!("cargo::rustc-check-cfg=cfg(tt_pub_occupied)");
    let tt = fs::read_to_string(format!("{src}/engine/transposition_table.rs")).unwrap_or_default();
    if tt.contains("pub occupied:") {
        println!("cargo:rustc-cfg=tt_pub_occupied");
    }
    // Hook H3 (position at which a search observed its stop) was added later than H1/H2: trees without
    // it (older scratch worktrees) must still build; the checks then go without that position.
    println!("cargo::rustc-check-cfg=cfg(hook_stopped_at)");
    let tc = fs::read_to_string(format!("{src}/engine/search/time_control.rs")).unwrap_or_default();
    if tc.contains("pub fn stopped_at") {
        println!("cargo:rustc-cfg=hook_stopped_at");
    }
    // Hook H4 (the time limit reads as expired from poll k on) came later still.
    println!("cargo::rustc-check-cfg=cfg(hook_expiry)");
    if tc.contains("pub fn arm_expiry") {
        println!("cargo:rustc-cfg=hook_expiry");
    }
    // Hook H5 (first poll at a chosen node, node entries after the stop).
    println!("cargo::rustc-check-cfg=cfg(hook_at_node)");
    if tc.contains("pub fn arm_at_node") {
        println!("cargo:rustc-cfg=hook_at_node");
    }
    // The completion latch between the search thread and `stop` is exercised directly by C05 if it
    // still has the shape new / set / wait / reset.
    println!("cargo::rustc-check-cfg=cfg(latch_api)");
    let sy = fs::read_to_string(format!("{src}/engine/util/sync.rs")).unwrap_or_default();
    if sy.contains("pub struct LockLatch") && sy.contains("fn new()") && sy.contains("pub fn wait(&self)") && sy.contains("pub fn set(&self)") && sy.contains("pub fn reset(&self)") {
        println!("cargo:rustc-cfg=latch_api");
    }
    println!("cargo::rustc-check-cfg=cfg(jgilchrist_tcheran_verif)");
}
